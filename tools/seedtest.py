#!/usr/bin/env python3
"""Confirm a seeded change (patch.diff + demo.py + meta.json) in a scratch worktree and run checks against it.

usage: tools/seedtest.py <seed-dir> [--checks C01,C05] [--tests] [--tier quick] [--keep-as <name>]

Steps (all outside /repo and /verif; the worktree is removed afterwards):
  1. git worktree of /repo HEAD under /tmp; demo.py on the clean tree must exit 0
  2. git apply patch.diff; demo.py must exit non-zero
  3. --tests: the repository's test-suite, unedited, must pass on the patched tree
  4. every named check's quick tier runs with VERIF_REPO=<worktree>; report which fire
  5. --keep-as: copy patch.diff, demo.py and an augmented meta.json to /verif/seeded/<name>/
"""
import argparse
import json
import os
import re
import shutil
import subprocess
import sys
import time

HERE = os.path.dirname(os.path.dirname(os.path.abspath(__file__)))
PY = "/venv/bin/python"


def sh(cmd, **kw):
    return subprocess.run(cmd, capture_output=True, text=True, **kw)


def main():
    ap = argparse.ArgumentParser()
    ap.add_argument("seed")
    ap.add_argument("--checks", default="")
    ap.add_argument("--tests", action="store_true")
    ap.add_argument("--tier", default="quick")
    ap.add_argument("--keep-as", default="")
    ap.add_argument("--skip-demo", action="store_true")
    ap.add_argument("--base", default="c087909", help="fallback base commit when the patch does not apply to HEAD")
    a = ap.parse_args()
    seed = os.path.abspath(a.seed)
    tag = re.sub(r"[^A-Za-z0-9]+", "-", seed.strip("/"))[-24:]
    wt = f"/tmp/sv-{tag}-{os.getpid()}"
    rep = {"seed": seed, "worktree": wt}
    sh(["git", "-C", "/repo", "worktree", "add", "--detach", wt, "HEAD"])
    try:
        env = dict(os.environ, PYTHONPATH=wt, PYTHONDONTWRITEBYTECODE="1")
        for k in ("SKETCHNU_VERIF", "SKETCHNU_VERIF_JITCACHE", "NUMBA_CACHE_DIR"):
            env.pop(k, None)
        demo = os.path.join(seed, "demo.py")
        if not a.skip_demo:
            t0 = time.time()
            p = sh([PY, "-W", "ignore", demo], env=env, cwd=wt, timeout=3000)
            rep["demo_clean_rc"] = p.returncode
            rep["demo_clean_tail"] = (p.stdout + p.stderr)[-300:]
            rep["demo_clean_s"] = round(time.time() - t0, 1)
        p = sh(["git", "-C", wt, "apply", os.path.join(seed, "patch.diff")])
        rep["base"] = "HEAD"
        if p.returncode != 0:
            # the patch was written against the tree before a later fix: commit touched the same lines: judge it on that tree
            sh(["git", "-C", "/repo", "worktree", "remove", "--force", wt])
            shutil.rmtree(wt, ignore_errors=True)
            sh(["git", "-C", "/repo", "worktree", "add", "--detach", wt, a.base])
            rep["base"] = a.base
            p = sh(["git", "-C", wt, "apply", os.path.join(seed, "patch.diff")])
        rep["apply_rc"] = p.returncode
        if p.returncode != 0:
            rep["apply_err"] = p.stderr[-300:]
            print(json.dumps(rep, indent=1))
            return 1
        if not a.skip_demo:
            p = sh([PY, "-W", "ignore", demo], env=env, cwd=wt, timeout=3000)
            rep["demo_patched_rc"] = p.returncode
            rep["demo_patched_tail"] = (p.stdout + p.stderr)[-400:]
        if a.tests:
            t0 = time.time()
            p = sh([PY, "-m", "pytest", "-q", "-p", "no:cacheprovider", "--timeout=900", "tests/"], env=env, cwd=wt, timeout=7200)
            tail = (p.stdout + p.stderr).strip().splitlines()[-1] if (p.stdout + p.stderr).strip() else ""
            rep["tests_rc"] = p.returncode
            rep["tests_summary"] = tail
            rep["tests_s"] = round(time.time() - t0, 1)
        rep["checks"] = {}
        cenv = dict(os.environ, VERIF_REPO=wt, VERIF_TMP="/tmp", VERIF_EVIDENCE_DIR=os.path.join(wt, ".evidence"),
                    VERIF_REPLAY_DIR=os.path.join(wt, ".replay"))
        for c in [x for x in a.checks.split(",") if x]:
            t0 = time.time()
            p = sh([os.path.join(HERE, "check"), c, a.tier], env=cenv, timeout=7200)
            out = p.stdout + p.stderr
            rep["checks"][c] = {"rc": p.returncode, "fired": p.returncode == 1 and "VIOLATION property=" in out,
                                "clauses": sorted(set(re.findall(r"clause=(\S+)", out)))[:5], "wall_s": round(time.time() - t0, 1),
                                "tail": out[-300:] if p.returncode not in (0, 1) else ""}
        print(json.dumps(rep, indent=1))
        if a.keep_as:
            dst = os.path.join(HERE, "seeded", a.keep_as)
            os.makedirs(dst, exist_ok=True)
            shutil.copy(os.path.join(seed, "patch.diff"), dst)
            shutil.copy(demo, dst)
            meta = {}
            mp = os.path.join(seed, "meta.json")
            if os.path.exists(mp):
                try:
                    meta = json.load(open(mp))
                except Exception:  # noqa: BLE001
                    meta = {"raw": open(mp).read()[:2000]}
            meta["confirmed_by_harness_author"] = {
                "demo_clean_rc": rep.get("demo_clean_rc"), "demo_patched_rc": rep.get("demo_patched_rc"),
                "tests_summary": rep.get("tests_summary"), "applied_to": rep.get("base"), "checks_quick": {k: {"fired": v["fired"], "clauses": v["clauses"]} for k, v in rep["checks"].items()},
                "how": "tools/seedtest.py: scratch git worktree of /repo HEAD under /tmp, demo on clean and patched tree, repository test-suite on the patched tree, checks via VERIF_REPO",
            }
            json.dump(meta, open(os.path.join(dst, "meta.json"), "w"), indent=1)
    finally:
        sh(["git", "-C", "/repo", "worktree", "remove", "--force", wt])
        shutil.rmtree(wt, ignore_errors=True)
        # JIT cache directories created for this worktree
    return 0


if __name__ == "__main__":
    sys.exit(main())
