#!/usr/bin/env python3
"""Rewrite the generated tables of DESIGN.md (between the BEGIN/END markers) from tools/selftest_results.json and seeded/*/meta.json."""
import os
import subprocess
import sys

HERE = os.path.dirname(os.path.dirname(os.path.abspath(__file__)))
p = os.path.join(HERE, "DESIGN.md")
s = open(p).read()


def put(s, tag, text):
    b, e = f"<!-- BEGIN {tag} -->", f"<!-- END {tag} -->"
    i, j = s.index(b) + len(b), s.index(e)
    return s[:i] + "\n" + text.strip() + "\n" + s[j:]


mut = subprocess.run([sys.executable, os.path.join(HERE, "tools", "report.py"), "mutants", os.path.join(HERE, "tools", "selftest_results.json")],
                     capture_output=True, text=True).stdout
seeds = subprocess.run([sys.executable, os.path.join(HERE, "tools", "report.py"), "seeds"], capture_output=True, text=True).stdout
s = put(s, "MUTANTS", mut)
s = put(s, "SEEDS", seeds)
open(p, "w").write(s)
print("tables updated:", mut.count("\n"), "mutant rows,", seeds.count("\n"), "seed rows")
