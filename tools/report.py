#!/usr/bin/env python3
"""Markdown tables for DESIGN.md: which checks catch which deliberate changes.

  tools/report.py seeds              -> table from /verif/seeded/*/meta.json
  tools/report.py mutants <json...>  -> table from tools/selftest.py --json outputs
"""
import glob
import json
import os
import sys

HERE = os.path.dirname(os.path.dirname(os.path.abspath(__file__)))
sys.path.insert(0, os.path.join(HERE, "tools"))


def seeds():
    rows = []
    for d in sorted(glob.glob(os.path.join(HERE, "seeded", "*"))):
        mp = os.path.join(d, "meta.json")
        if not os.path.exists(mp):
            continue
        m = json.load(open(mp))
        c = m.get("confirmed_by_harness_author", {})
        checks = c.get("checks_quick", {})
        extra = m.get("checks_after_strengthening", {})
        caught = [k for k, v in checks.items() if v.get("fired")]
        missed = [k for k, v in checks.items() if not v.get("fired")]
        later = [k for k, v in extra.items() if v.get("fired") and k.split(" ")[0] not in caught or (v.get("fired") and "thorough" in k)]
        summ = (m.get("summary") or "").replace("\n", " ").replace("|", "/")
        needs = (m.get("needs_to_manifest") or "").replace("\n", " ").replace("|", "/")
        rows.append((os.path.basename(d), m.get("property", "?"), summ[:150], needs[:150],
                     f"{c.get('demo_clean_rc')}/{c.get('demo_patched_rc')}", (c.get("tests_summary") or "")[:10],
                     ", ".join(f"{k} ({'; '.join(checks[k]['clauses'][:1])})" for k in caught) or "-",
                     ", ".join(later) or "-", ", ".join(missed) or "-"))
    print("| seed | property | change | needs to manifest | demo rc clean/patched | repo tests | caught by (quick) | caught after strengthening | ran silent |")
    print("|---|---|---|---|---|---|---|---|---|")
    for r in rows:
        print("| " + " | ".join(r) + " |")


def mutants(paths):
    from mutants import MUTANTS

    by_id = {m["id"]: m for m in MUTANTS}
    res = {}
    for p in paths:
        for r in json.load(open(p)):
            res.setdefault(r["id"], {}).update(r.get("results", {}))
    print("| mutant | site / edit | expected | caught by (quick unless noted) | silent | note |")
    print("|---|---|---|---|---|---|")
    for mid in sorted(res, key=lambda x: (len(x), x)):
        m = by_id.get(mid, {})
        caught = [c for c, v in res[mid].items() if v["fired"]]
        silent = [c for c, v in res[mid].items() if not v["fired"]]
        note = "equivalent mutant: no check may fire" if m.get("equivalent") else ("thorough tier (bounds-check shard)" if m.get("thorough") else "")
        print(f"| {mid} | {m.get('file', '')}: {m.get('desc', '')[:110]} | {', '.join(m.get('expect', []))} | {', '.join(caught) or '-'} | {', '.join(silent) or '-'} | {note} |")


if __name__ == "__main__":
    if len(sys.argv) > 1 and sys.argv[1] == "seeds":
        seeds()
    else:
        mutants(sys.argv[2:])
