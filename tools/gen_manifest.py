#!/usr/bin/env python3
"""Regenerate /verif/MANIFEST.json from the metadata of the property modules under vmon/props.

Run with any python3 (does not import sketchnu): python3 tools/gen_manifest.py
"""
import ast
import json
import os
import sys

HERE = os.path.dirname(os.path.dirname(os.path.abspath(__file__)))
PROPS = [json.loads(l)["id"] for l in open(os.path.join(HERE, "properties.jsonl"))]


def meta(pid):
    path = os.path.join(HERE, "vmon", "props", pid.lower() + ".py")
    if not os.path.exists(path):
        return None
    tree = ast.parse(open(path).read())
    out = {}
    for node in tree.body:
        if isinstance(node, ast.Assign) and len(node.targets) == 1 and isinstance(node.targets[0], ast.Name):
            name = node.targets[0].id
            if name.isupper():
                try:
                    out[name] = ast.literal_eval(node.value)
                except Exception:
                    pass
    return out


def main():
    checks, na = [], []
    for pid in PROPS:
        m = meta(pid)
        if not m or m.get("REGISTER", True) is False:
            na.append({"property_id": pid, "reason": (m or {}).get("NA_REASON", "check not built yet (work in progress; see DESIGN.md section 3 for the planned monitor)")})
            continue
        checks.append({
            "property_id": pid,
            "quick_cmd": f"./check {pid} quick",
            "thorough_cmd": f"./check {pid} thorough",
            "evidence_file": f"/verif/evidence/{pid}.json",
            "replay_cmd_template": f"./check {pid} --replay {{path}}",
            "engine": "vmon",
            "level_claimed": {
                "category": m["LEVEL"],
                "text": m.get("LEVEL_TEXT", m.get("RULE", "")),
                "design_ref": m.get("DESIGN_REF", f"DESIGN.md section 3, {pid}"),
            },
            "level_note": m.get("LEVEL_NOTE", "; ".join(m.get("ASSUMPTIONS", []))) + (
                "; thorough tier adds one shard compiled with NUMBA_BOUNDSCHECK=1 (Numba's bounds-check sanitizer: an out-of-range index in a kernel raises instead of corrupting memory)"
                if m.get("BOUNDSCHECK") else ""),
            "technique": m.get("TECHNIQUE", "runtime monitoring") + ("; Numba bounds-check sanitizer shard (thorough)" if m.get("BOUNDSCHECK") else ""),
        })
    manifest = {
        "version": 1,
        "setup_cmd": "./setup.sh",
        "hooks": {
            "guard": "SKETCHNU_VERIF",
            "enable": "no source hook exists in /repo: ./check exports SKETCHNU_VERIF=1, puts /repo first on PYTHONPATH (the working tree is imported and JIT-compiled by the real Numba) and the harness rebinds module globals (helpers.get_context, sleep, gc) from outside",
            "baseline_off_cmd": "cd /repo && env -u SKETCHNU_VERIF -u SKETCHNU_VERIF_JITCACHE -u NUMBA_CACHE_DIR /venv/bin/python -m pytest -q -p no:cacheprovider --timeout=900",
            "source_commits": [],
            "add_only": True,
        },
        "engines": [{
            "name": "vmon",
            "path": "/verif/vmon",
            "serves_properties": [c["property_id"] for c in checks],
            "kind_free_text": "runtime monitors (ghost state, reference models, invariants at the API boundary, offline event-log checkers, fault enumeration) over executions of the real JIT-compiled sketchnu; Numba bounds-check sanitizer in the thorough tier",
        }],
        "checks": checks,
        "not_applicable": na,
        "notes": "All checks: exit 0 held / exit 1 + VIOLATION line / exit 2 inconclusive (watchdog, coverage floor, harness error). VERIF_SEED selects the PRNG streams. known_findings.json is read-only at run time.",
    }
    with open(os.path.join(HERE, "MANIFEST.json"), "w") as fh:
        json.dump(manifest, fh, indent=1)
        fh.write("\n")
    print(f"MANIFEST.json: {len(checks)} checks, {len(na)} not_applicable")


if __name__ == "__main__":
    main()
