#!/usr/bin/env python3
"""Mutation self-test of the monitors (DESIGN.md section 7 / Appendix A).

For each catalogue entry: copy /repo's package to a scratch directory under /tmp, apply one textual edit,
run the designated checks' quick tier against the copy (VERIF_REPO), and report whether they fired.
Scratch copies are removed afterwards.  Nothing here touches /repo.

usage: tools/selftest.py [-j N] [--only M01,M02] [--checks C01,C05] [--tier quick] [--keep]
"""
import argparse
import concurrent.futures as cf
import json
import os
import re
import shutil
import subprocess
import sys
import time

HERE = os.path.dirname(os.path.dirname(os.path.abspath(__file__)))
sys.path.insert(0, os.path.join(HERE, "tools"))
from mutants import MUTANTS  # noqa: E402


def apply_mutant(m, root):
    path = os.path.join(root, "sketchnu", m["file"])
    src = open(path).read()
    edits = m["edits"]
    for old, new in edits:
        n = src.count(old)
        want = m.get("count", 1)
        if n < 1 or (want and n != want and not m.get("all")):
            raise RuntimeError(f"{m['id']}: pattern occurs {n}x (want {want}) in {m['file']}: {old[:60]!r}")
        src = src.replace(old, new) if m.get("all") else src.replace(old, new, 1)
    open(path, "w").write(src)


def run_one(m, checks, tier, keep, extra_env, only_given=False):
    root = f"/tmp/vmut-{m['id']}-{os.getpid()}"
    shutil.rmtree(root, ignore_errors=True)
    os.makedirs(root)
    shutil.copytree("/repo/sketchnu", os.path.join(root, "sketchnu"), ignore=shutil.ignore_patterns("__pycache__"))
    res = {"id": m["id"], "desc": m["desc"], "results": {}}
    try:
        apply_mutant(m, root)
    except Exception as exc:  # noqa: BLE001
        res["error"] = str(exc)
        shutil.rmtree(root, ignore_errors=True)
        return res
    env = dict(os.environ, VERIF_REPO=root, VERIF_TMP="/tmp", VERIF_EVIDENCE_DIR=os.path.join(root, "evidence"),
               VERIF_REPLAY_DIR=os.path.join(root, "replay"))
    env.update(extra_env)
    mine = m["expect"] + m.get("also", [])
    if checks and not only_given:
        run_these = [c for c in mine if c in checks]
    else:
        run_these = checks or mine
    for c in run_these:
        t0 = time.time()
        this_tier, this_env = tier, env
        if c in m.get("thorough", []):
            this_tier = "thorough"
            this_env = dict(env, VERIF_BUDGET_SCALE="0.08", VERIF_SHARDS="2")
        p = subprocess.run([os.path.join(HERE, "check"), c, this_tier], env=this_env, capture_output=True, text=True, timeout=3600)
        out = p.stdout + p.stderr
        clause = re.findall(r"clause=(\S+)", out)
        res["results"][c] = {"rc": p.returncode, "fired": p.returncode == 1 and "VIOLATION property=" in out,
                             "clauses": sorted(set(clause))[:4], "wall": round(time.time() - t0, 1),
                             "tail": out[-400:] if p.returncode not in (0, 1) else ""}
    if not keep:
        shutil.rmtree(root, ignore_errors=True)
        # drop the JIT cache directory this mutant created
    return res


def main():
    global JC_BEFORE
    jc = os.path.join(HERE, ".jitcache")
    JC_BEFORE = set(os.listdir(jc)) if os.path.isdir(jc) else set()
    ap = argparse.ArgumentParser()
    ap.add_argument("-j", type=int, default=8)
    ap.add_argument("--only", default="")
    ap.add_argument("--checks", default="")
    ap.add_argument("--tier", default="quick")
    ap.add_argument("--keep", action="store_true")
    ap.add_argument("--json", default="")
    args = ap.parse_args()
    only = set(x for x in args.only.split(",") if x)
    checks = [x for x in args.checks.split(",") if x]
    todo = [m for m in MUTANTS if (not only or m["id"] in only)]
    if checks and not only:
        todo = [m for m in todo if set(m["expect"] + m.get("also", [])) & set(checks)]
    out = []
    with cf.ThreadPoolExecutor(max_workers=args.j) as ex:
        futs = {ex.submit(run_one, m, checks, args.tier, args.keep, {}, bool(only)): m for m in todo}
        for f in cf.as_completed(futs):
            m = futs[f]
            r = f.result()
            out.append(r)
            if "error" in r:
                print(f"{r['id']:5} ERROR {r['error']}")
                continue
            for c, v in r["results"].items():
                exp = c in m["expect"]
                none_expected = m.get("equivalent", False)
                status = "caught" if v["fired"] else ("silent" if v["rc"] == 0 else f"rc={v['rc']}")
                flag = ""
                if exp and not v["fired"] and not none_expected:
                    flag = "  <-- MISSED"
                if none_expected and v["fired"]:
                    flag = "  <-- FIRED ON EQUIVALENT MUTANT"
                print(f"{r['id']:5} {c} {status:7} {v['wall']:6.1f}s {','.join(v['clauses'])[:70]:70} {m['desc'][:60]}{flag}")
                if v["tail"]:
                    print("      " + v["tail"].replace("\n", "\n      "))
            sys.stdout.flush()
    if args.json:
        json.dump(sorted(out, key=lambda r: r["id"]), open(args.json, "w"), indent=1)
    # remove the JIT cache directories the mutants created
    jc = os.path.join(HERE, ".jitcache")
    if os.path.isdir(jc):
        for d in os.listdir(jc):
            if d not in JC_BEFORE:
                shutil.rmtree(os.path.join(jc, d), ignore_errors=True)


if __name__ == "__main__":
    main()
