#!/bin/bash
# Offline setup after a fresh restore: nothing is installed; the only work is warming the
# content-addressed Numba JIT cache for the current /repo tree (so that every check, and every
# spawned worker, imports sketchnu in ~1.5 s instead of ~25 s) and building the sanitizer-instrumented
# C reference of the hash functions (used by the thorough tier of C11).
set -u
HERE="$(cd "$(dirname "${BASH_SOURCE[0]}")" && pwd)"
cd "$HERE" || exit 1
mkdir -p evidence replay build
./check WARM || { echo "setup: warm-up import of sketchnu failed"; exit 1; }
if [ -f vmon/refs/hashes_ref.c ] && command -v clang >/dev/null 2>&1; then
    clang -O1 -g -fsanitize=address,undefined -fno-sanitize-recover=all -fno-omit-frame-pointer \
        -o build/hashes_ref_san vmon/refs/hashes_ref.c 2>build/hashes_ref_san.log || echo "setup: clang build of C reference failed (C11 thorough falls back to the Python reference)"
fi
exit 0
