"""Thread workloads with LONG kernel calls (round 8: seeds C01-N, C02-N, C05-N, C06-N compile kernels with nogil=True).

Under the unchanged library every jitted kernel holds the GIL, so a call into the library is atomic with respect to other Python
threads whatever they do.  Short calls (one add of a 6-byte key) therefore interleave only *between* calls, and a tree whose
kernels release the GIL shows nothing on them: the race window is a few hundred nanoseconds.  These workloads make each call long
(documents of tens of kilobytes through add_ngram, lists of thousands of keys through update, 32-row tables) so that, if kernels
ever run in parallel, they overlap for most of their duration.  The oracles are the properties' own: a sketch filled by one thread
equals the twin built sequentially from the same calls (any sharing between *different* objects shows), and a key that only one
thread adds holds exactly its count while other threads query or add other keys on the same object.
"""
import threading

import numpy as np

from . import state
from .common import hx


def _run(fns):
    barrier = threading.Barrier(len(fns))
    errs = []

    def wrap(fn):
        def go():
            barrier.wait()
            try:
                fn()
            except BaseException as exc:  # noqa: BLE001
                errs.append(f"{type(exc).__name__}: {exc}")
        return go

    ts = [threading.Thread(target=wrap(f)) for f in fns]
    for t in ts:
        t.start()
    for t in ts:
        t.join()
    return errs


def _apply(s, op):
    if op[0] == "ngram":
        s.add_ngram(op[1], op[2])
    elif op[0] == "update":
        s.update(op[1])
    else:
        s.add(op[1], op[2]) if op[2] is not None else s.add(op[1])


def gen_work(rng, kind, n_ops):
    """A per-thread list of long calls; multiplicities stay small so that log sketches with a wide table remain in their exact range."""
    work = []
    doc_len = 6000 if kind == "log8" else 30000
    for j in range(n_ops):
        r = j % 3
        if r == 0:
            work.append(("ngram", bytes(rng.integers(0, 256, doc_len, dtype=np.uint8)), int(rng.integers(3, 7))))
        elif r == 1:
            work.append(("update", [bytes(rng.integers(0, 256, int(rng.integers(1, 40)), dtype=np.uint8)) for _ in range(1500)]))
        else:
            work.append(("add", bytes(rng.integers(0, 256, 24, dtype=np.uint8)), None if kind in ("hll", "hh") else 3))
    return work


OWN_CFG = {
    "linear": {"kind": "linear", "width": 64, "depth": 8},
    "log16": {"kind": "log16", "width": 4096, "depth": 8, "max_count": 2**32 - 1, "num_reserved": 1023},
    "log8": {"kind": "log8", "width": 8192, "depth": 8, "max_count": 2**32 - 1, "num_reserved": 100},
    "hll": {"kind": "hll", "p": 7, "seed": 0},
    "hh": {"kind": "hh", "width": 16, "depth": 8, "max_key_len": 8},
}


def run_own_sketches(case, mon):
    """T threads, each filling its OWN sketch (all of one configuration) through long calls: every sketch must equal the twin built
    sequentially from the same calls."""
    kind, T = case["kind"], case["threads"]
    cfg = OWN_CFG[kind]
    rng = np.random.default_rng(case["seed"])
    works = [gen_work(rng, kind, case.get("ops", 9)) for _ in range(T)]
    for rnd in range(case.get("rounds", 2)):
        sketches = [state._make(cfg, False) for _ in range(T)]
        errs = _run([(lambda s=s, w=w: [_apply(s, op) for op in w]) for s, w in zip(sketches, works)])
        mon.check(not errs, "threads:calls-on-separate-sketches-do-not-raise", kind=kind, errors=errs[:3])
        for t, (s, w) in enumerate(zip(sketches, works)):
            twin = state._make(cfg, False)
            for op in w:
                _apply(twin, op)
            if kind in ("log16", "log8") and int(np.max(twin.cms)) > cfg["num_reserved"]:
                mon.count("thread_own_sketch_comparisons_skipped:left_exact_range")
                continue
            d = state.snap_diff(state.snapshot(twin), state.snapshot(s))
            mon.check(not d, "threads:sketch-filled-by-one-thread==sequential-twin", kind=kind, thread=t, of=T, round=rnd, differs_in=d)
            mon.count("thread_own_sketch_comparisons")
    mon.count("thread_own_sketch_cases")
    mon.nontrivial(True)


def run_shared_hll(case, mon):
    """T threads push long documents through add_ngram / update into ONE HyperLogLog: the registers must be those of the sketch
    that received the same calls sequentially (the state is the maximum over keys, so every order gives the same registers)."""
    T = case["threads"]
    cfg = {"kind": "hll", "p": case.get("p", 7), "seed": case.get("hll_seed", 0)}
    rng = np.random.default_rng(case["seed"])
    works = [gen_work(rng, "hll", case.get("ops", 6)) for _ in range(T)]
    twin = state._make(cfg, False)
    for w in works:
        for op in w:
            _apply(twin, op)
    for rnd in range(case.get("rounds", 4)):
        h = state._make(cfg, False)
        errs = _run([(lambda w=w: [_apply(h, op) for op in w]) for w in works])
        mon.check(not errs, "threads:calls-on-one-sketch-do-not-raise", errors=errs[:3])
        bad = np.flatnonzero(np.asarray(h.registers) != np.asarray(twin.registers))
        mon.check(len(bad) == 0, "threads:registers==sequential-sketch(long documents)", n_bad=int(len(bad)), p=cfg["p"], threads=T, round=rnd,
                  first=[(int(i), int(h.registers[i]), int(twin.registers[i])) for i in bad[:4]])
        mon.count("thread_shared_hll_rounds")
    mon.nontrivial(True)


def run_adder_vs_readers(case, mon):
    """One thread adds one key N times to a deep sketch while other threads query OTHER keys (and one adds a long document of other
    keys through add_ngram) on the same object: the key must hold at least its N adds - exactly N when nothing else was added."""
    kind, N = case["kind"], case["adds"]
    cfg = {"kind": kind, "width": 4096, "depth": 32}
    if kind != "linear":
        cfg.update(max_count=2**32 - 1, num_reserved=min(N + 100, 30000) if kind == "log16" else 100)
    if kind == "log8":
        N = min(N, 90)
    s = state._make(cfg, False)
    rng = np.random.default_rng(case["seed"])
    key = bytes(rng.integers(0, 256, 12, dtype=np.uint8))
    others = [bytes(rng.integers(0, 256, 12, dtype=np.uint8)) for _ in range(64)]
    done = threading.Event()

    def adder():
        try:
            for _ in range(N):
                s.add(key, 1)
        finally:
            done.set()

    def reader():
        i = 0
        while not done.is_set():
            s.query(others[i % len(others)])
            i += 1

    errs = _run([adder] + [reader] * case.get("readers", 3))
    mon.check(not errs, "threads:calls-on-one-sketch-do-not-raise", errors=errs[:3], kind=kind)
    got = float(s.query(key))
    mon.check(got == float(N), "threads:key-added-by-one-thread-while-others-query==its-adds", kind=kind, got=got, want=N, key=hx(key), depth=cfg["depth"])
    mon.check(int(s.n_added()) == N, "threads:n_added==total", kind=kind, got=int(s.n_added()), want=N)
    mon.count("thread_adder_vs_readers_cases")
    mon.count("thread_adder_vs_readers_adds", N)
    mon.nontrivial(True)
