"""Opt-in, content-addressed Numba JIT cache for the verification harness.

Active only when SKETCHNU_VERIF_JITCACHE=1 and NUMBA_CACHE_DIR is set (both are
exported by /verif/check; the repository's own test run never sees them).  It
rebinds ``numba.njit`` so that ``cache=True`` is the default.  sketchnu compiles
every kernel at import time (about 25 s per process); spawned workers of
``parallel_add`` are fresh interpreters and inherit PYTHONPATH, so they pick
this file up too and import in about 1.5 s.

Numba's own invalidation looks only at the file that defines a function, not
at callees in other files; /verif/check therefore keys NUMBA_CACHE_DIR on a
digest of *every* file under sketchnu/ (plus this file and the tool versions),
so an edit anywhere in the package starts from an empty cache directory.
"""
import os

if os.environ.get("SKETCHNU_VERIF_JITCACHE") == "1" and os.environ.get("NUMBA_CACHE_DIR"):
    try:
        import numba

        _orig_njit = numba.njit

        def _njit_cached(*args, **kwargs):
            kwargs.setdefault("cache", True)
            return _orig_njit(*args, **kwargs)

        _njit_cached.__wrapped__ = _orig_njit
        numba.njit = _njit_cached
    except Exception:  # pragma: no cover - never let the hook break a process
        pass
