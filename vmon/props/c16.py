"""C16 - shared-memory and attached sketches behave exactly like in-memory ones."""
from __future__ import annotations

import gc
import os

import numpy as np

from .. import ops, state
from ..common import hx, key_family, pick, rand_key, run_cases, shm_census, sk, unhx

ID = "C16"
LEVEL = "exploration"
TECHNIQUE = "lock-step differential monitor between an ordinary sketch, a shared_memory=True owner and 1-2 attached views (operations routed to a random handle, whole public state of every handle compared after each), plus a /dev/shm segment-presence monitor across deletion orders and a leak census"
RULE = ("case = (class, shape with odd byte sizes, number of views, how each view is attached (helpers.attach_shared_memory or "
        "attach_existing_shm), event list with the handle that executes each event, deletion order); non-trivial = the bookkeeping counters "
        "of the shape are unaligned (offset not a multiple of 8; heavy-hitter key area not a multiple of 4) or more than one handle executed "
        "operations; distinct = by case digest; scenarios besides the lock-step one: an owner re-pointed at another owner's block and then "
        "dropped; a helper view re-pointed (kept alive) followed by a second helper attach to the first block; a re-point to a missing "
        "block (must raise, view stays attached); owner + view life cycle inside an os.fork() child")
ASSUMPTIONS = ["all handles live in one process (cross-process attachment is exercised by the real spawned runs of C08/C19)",
               "the modules' sleep()/gc names are rebound by the harness so that dropping a handle does not cost 0.25 s; the segment checks use the real /dev/shm"]
LEVEL_TEXT = ("All five classes with shapes chosen to misalign every region of the shared block; every operation is executed on the ordinary "
              "sketch and on one handle of the shared block, and all handles must agree with it afterwards; both deletion orders are observed "
              "on the real /dev/shm.")
LEVEL_NOTE = "state equality on the documented arrays and parameters, queries included; log types under identical draws"
BUDGET = {"quick": 75, "thorough": 300}
SHARDS = {"quick": 1, "thorough": 16}
BOUNDSCHECK = True
SHM_LEAK_IS_VIOLATION = True


def gen_cfg(rng, kind):
    odd = lambda lo, hi: int(rng.integers(lo, hi)) * 2 + 1  # noqa: E731
    if kind == "linear":
        return {"kind": kind, "width": odd(0, 8), "depth": odd(0, 3)}
    if kind == "log16":
        return {"kind": kind, "width": pick(rng, [1, 3, 5, 7, 9, 2, 6]), "depth": pick(rng, [1, 3]), "max_count": pick(rng, [70000, 2**32 - 1]),
                "num_reserved": pick(rng, [0, 50, 1023])}
    if kind == "log8":
        return {"kind": kind, "width": pick(rng, [1, 3, 5, 7, 9, 11, 2]), "depth": pick(rng, [1, 3]), "max_count": pick(rng, [1000, 2**32 - 1]),
                "num_reserved": pick(rng, [0, 15])}
    if kind == "hh":
        return {"kind": kind, "width": pick(rng, [1, 2, 3, 5]), "depth": pick(rng, [1, 2, 3]), "max_key_len": pick(rng, [1, 3, 5, 7, 9, 4])}
    return {"kind": "hll", "p": pick(rng, [7, 8, 9]), "seed": pick(rng, [0, 2**63 + 1])}


def unaligned(cfg):
    k = cfg["kind"]
    if k == "hll":
        return False
    wd = cfg["width"] * cfg["depth"]
    if k == "linear":
        return (4 * wd) % 8 != 0
    if k == "log16":
        return (2 * wd) % 8 != 0
    if k == "log8":
        return wd % 8 != 0
    return (cfg["max_key_len"] * wd) % 4 != 0 or (cfg["max_key_len"] * wd + 5 * wd) % 8 != 0


def gen_case(rng, ctx, kind):
    cfg = gen_cfg(rng, kind)
    keys = key_family(rng, int(rng.integers(2, 8)), 0, 10)
    n_views = int(rng.integers(1, 3))
    maxv = 300 if kind in ("log16", "log8") else None
    events = []
    for _ in range(int(rng.integers(3, 25))):
        events.append([int(rng.integers(0, n_views + 1)), ops.gen_op(rng, keys, max_value=maxv, big=0.1)])
    return {"cfg": cfg, "views": [pick(rng, ["helpers.attach_shared_memory", "attach_existing_shm"]) for _ in range(n_views)],
            "events": events, "drop_order": pick(rng, ["views-first", "owner-first"]), "strangers": [hx(rand_key(rng, 0, 5))],
            "built_by": pick(rng, ["factory", "class", "load"]),
            "draw_seed": int(rng.integers(1, 2**30))}


def make_by(cfg, how, shared_memory):
    s = sk()
    kind = cfg["kind"]
    if how == "class" and kind in state.CMS_KINDS:
        if kind == "linear":
            return s.CountMinLinear(cfg["width"], cfg["depth"], shared_memory=shared_memory)
        cls = s.CountMinLog16 if kind == "log16" else s.CountMinLog8
        return cls(cfg["width"], cfg["depth"], cfg["max_count"], cfg["num_reserved"], shared_memory=shared_memory)
    return state.make(cfg, shared_memory=shared_memory)


def attach(how, cfg, owner):
    s = sk()
    kind = cfg["kind"]
    stype = "hh" if kind == "hh" else ("hll" if kind == "hll" else "cms")
    if how == "helpers.attach_shared_memory":
        return s.helpers.attach_shared_memory(stype, owner.args, owner.shm.name)
    v = state.make(cfg)
    # a local sketch that has already lived a little (adds, a merge, a query) before it is pointed at the shared block
    v.add(b"local-history", 3)
    w = state.make(cfg)
    w.add(b"local-history-2", 2)
    v.merge(w)
    if kind == "hll":
        v.query()
    elif kind == "hh":
        v.query(5)
        v.query(5, 0)
    else:
        v.query(b"local-history")
    v.attach_existing_shm(owner.shm.name)
    return v


def agree(mon, plain, handles, kind, universe, cfg, after):
    ref = state.snapshot(plain, kind)
    for name, h in handles:
        d = state.snap_diff(ref, state.snapshot(h, kind), params=True)
        mon.check(not d, "handle-state==ordinary-sketch-state", handle=name, differs_in=d, after=after, cfg=cfg)
        if kind in state.CMS_KINDS:
            for k in universe:
                if h.query(k) != plain.query(k):
                    mon.check(False, "handle-query==ordinary-query", handle=name, key=hx(k), got=float(h.query(k)), want=float(plain.query(k)), after=after, cfg=cfg)
            mon.tick("handle-query==ordinary-query", len(universe))
            mon.check(int(h.n_added()) == int(plain.n_added()) and int(h.n_records()) == int(plain.n_records()), "handle-bookkeeping==ordinary", handle=name,
                      got=[int(h.n_added()), int(h.n_records())], want=[int(plain.n_added()), int(plain.n_records())], after=after, cfg=cfg)
        elif kind == "hh":
            for k in universe:
                if int(h[k]) != int(plain[k]):
                    mon.check(False, "handle-query==ordinary-query", handle=name, key=hx(k), got=int(h[k]), want=int(plain[k]), after=after, cfg=cfg)
            mon.tick("handle-query==ordinary-query", len(universe))
            a, b = h.query(10**9, 0), plain.query(10**9, 0)
            mon.check(sorted((bytes(x), int(c)) for x, c in a) == sorted((bytes(x), int(c)) for x, c in b), "handle-topk==ordinary-topk", handle=name, after=after, cfg=cfg)
            mon.check(int(h.n_added()) == int(plain.n_added()), "handle-bookkeeping==ordinary", handle=name, after=after, cfg=cfg)
        else:
            mon.check(float(h.query()) == float(plain.query()), "handle-query==ordinary-query", handle=name, after=after, cfg=cfg)


def run_case(case, ctx, mon):
    cfg = case["cfg"]
    kind = cfg["kind"]
    is_log = kind in ("log16", "log8")
    # owner / ordinary sketch built through the class constructor or through the CountMin() factory; views through
    # helpers.attach_shared_memory (factory) or attach_existing_shm: all routes must agree on every parameter
    how = case.get("built_by", "factory")
    plain = make_by(cfg, how if how != "load" else "factory", False)
    if how == "load":
        # the shared-memory owner comes out of load(..., shared_memory=True) of a non-empty saved sketch
        for op in case["events"][:3]:
            ops.apply_op(plain, op[1])
        if kind != "hll":
            plain.n_added_records[1] = np.uint64(7)
        owner = state.save_load(plain, kind, True, bool(kind in state.CMS_KINDS and case["draw_seed"] % 2))
    else:
        owner = make_by(cfg, how, True)
    mon.seen("owner_built_by", f"{kind}:{how}")
    name = owner.shm.name.lstrip("/")
    path = "/dev/shm/" + name
    mon.check(os.path.exists(path), "owner-segment-exists", name=name)
    views = [attach(how, cfg, owner) for how in case["views"]]
    handles = [("owner", owner)] + [(f"view{i}:{how}", v) for i, (how, v) in enumerate(zip(case["views"], views))]
    universe = ops.universe_of([e[1] for e in case["events"]], extra=[unhx(s) for s in case["strangers"]])[:30]
    if kind != "hll":
        owner.n_added_records[1] = np.uint64(7)
        plain.n_added_records[1] = np.uint64(7)
    for pname in ("max_count", "num_reserved", "width", "depth", "p", "seed", "max_key_len"):
        if pname in cfg:
            for hname, hobj in [("ordinary", plain)] + handles:
                mon.check(int(getattr(hobj, pname)) == int(cfg[pname]), "handle-has-the-requested-parameter", handle=hname, parameter=pname,
                          got=int(getattr(hobj, pname)), want=int(cfg[pname]), cfg=cfg, built_by=how)
    agree(mon, plain, handles, kind, universe, cfg, "attach")
    late_at = len(case["events"]) // 2
    used = set()
    for n_op, (hi, op) in enumerate(case["events"]):
        if n_op == late_at and n_op > 0:
            # a view attached late, to a block that already holds data, must see it at once (also with threshold 0)
            lv = attach(pick(np.random.default_rng(case["draw_seed"]), ["helpers.attach_shared_memory", "attach_existing_shm"]), cfg, owner)
            views.append(lv)
            handles.append(("late-view", lv))
            agree(mon, plain, handles[-1:], kind, universe, cfg, "late attach")
            mon.count("late_views")
            lv = None
        hi = hi % len(handles)
        hname, h = handles[hi]
        used.add(hi)
        if is_log:
            state.share_draws(plain, h)
            state.numba_seed(case["draw_seed"] + n_op)
        mon.api(ops.apply_op, plain, op)
        if is_log:
            state.numba_seed(case["draw_seed"] + n_op)
        mon.api(ops.apply_op, h, op)
        agree(mon, plain, handles, kind, universe, cfg, [hname, op])
        mon.count(f"ops_via:{'owner' if hi == 0 else 'view'}")
        if n_op % 4 == 3:
            # merges out of a handle (into a fresh ordinary sketch) and into a handle must equal the ordinary sketch's
            other_name, other_h = handles[(hi + 1) % len(handles)]
            t_ref, t_h = state.make(cfg), state.make(cfg)
            t_ref.merge(plain)
            mon.api(t_h.merge, other_h)
            d = state.snap_diff(state.snapshot(t_ref, kind), state.snapshot(t_h, kind))
            mon.check(not d, "merging-a-handle-into-a-fresh-sketch==merging-the-ordinary-sketch", handle=other_name, differs_in=d, after=[hname, op], cfg=cfg)
            extra = state.make(cfg)
            extra.add(b"extra-key", 2)
            if is_log:
                state.share_draws(plain, other_h)
            plain.merge(extra)
            mon.api(other_h.merge, extra)
            agree(mon, plain, handles, kind, universe, cfg, [other_name, "merge(extra)"])
            if n_op % 8 == 7 and len(handles) > 1:
                # both operands are handles on the SAME block (and, for the ordinary sketch, the sketch itself)
                if is_log:
                    state.share_draws(plain, handles[0][1])
                plain.merge(plain)
                mon.api(handles[0][1].merge, handles[1][1])
                agree(mon, plain, handles, kind, universe, cfg, ["owner.merge(view of the same block)"])
                mon.count("merges_of_two_handles_on_one_block")
            mon.count("merges_through_handles")
            other_h = t_h = t_ref = extra = None  # no stray reference may keep a handle alive (deletion orders are observed below)
    mon.count(f"cases:{kind}")
    if unaligned(cfg):
        mon.count(f"unaligned_cases:{kind}")
    # ---- deletion orders
    ref = state.snapshot(plain, kind)
    del handles, h
    if case["drop_order"] == "views-first":
        while views:
            v = views.pop()
            del v
            gc.collect()
            mon.check(os.path.exists(path), "dropping-a-view-keeps-the-segment", name=name, cfg=cfg)
            d = state.snap_diff(ref, state.snapshot(owner, kind))
            mon.check(not d, "dropping-a-view-keeps-owner-contents", differs_in=d, cfg=cfg)
            mon.count("views_dropped_before_owner")
        del owner
        gc.collect()
        mon.check(not os.path.exists(path), "dropping-the-owner-removes-the-segment", name=name, cfg=cfg)
        mon.count("owners_dropped")
    else:
        del owner
        gc.collect()
        mon.check(not os.path.exists(path), "dropping-the-owner-removes-the-segment", name=name, cfg=cfg, still_attached_views=len(views))
        mon.count("owners_dropped_before_views")
        # a view that is still attached keeps seeing the data it had
        d = state.snap_diff(ref, state.snapshot(views[0], kind))
        mon.check(not d, "attached-view-still-reads-its-data-after-owner-dropped", differs_in=d, cfg=cfg)
        while views:
            v = views.pop()
            del v
            gc.collect()
        mon.check(not os.path.exists(path), "segment-stays-removed", name=name, cfg=cfg)
    mon.seen("drop_order", case["drop_order"])
    mon.nontrivial(unaligned(cfg) or len(used) > 1)


def run_reattached_owner(case, ctx, mon):
    """A shared_memory=True sketch (owner of its own segment B) that is then pointed at another owner's block A with
    attach_existing_shm: it is a view of A from then on, and dropping it must remove B - the segment it owns - and leave A alone."""
    cfg = case["cfg"]
    kind = cfg["kind"]
    a = make_by(cfg, "factory", True)
    plain = make_by(cfg, "factory", False)
    b = make_by(cfg, "factory", True)
    path_a = "/dev/shm/" + a.shm.name.lstrip("/")
    path_b = "/dev/shm/" + b.shm.name.lstrip("/")
    universe = ops.universe_of([e[1] for e in case["events"]])[:20]
    is_log = kind in ("log16", "log8")
    for n_op, (_hi, op) in enumerate(case["events"][:4]):
        if is_log:
            state.share_draws(plain, a)
            state.numba_seed(case["draw_seed"] + n_op)
        ops.apply_op(plain, op)
        if is_log:
            state.numba_seed(case["draw_seed"] + n_op)
        ops.apply_op(a, op)
    b.add(b"own-history", 2)
    mon.api(b.attach_existing_shm, a.shm.name)
    agree(mon, plain, [("owner", a), ("re-attached owner of another segment", b)], kind, universe, cfg, "re-attach")
    for n_op, (hi, op) in enumerate(case["events"][4:]):
        h = (a, b)[hi % 2]
        if is_log:
            state.share_draws(plain, h)
            state.numba_seed(case["draw_seed"] + 100 + n_op)
        ops.apply_op(plain, op)
        if is_log:
            state.numba_seed(case["draw_seed"] + 100 + n_op)
        mon.api(ops.apply_op, h, op)
        agree(mon, plain, [("owner", a), ("re-attached owner of another segment", b)], kind, universe, cfg, [hi % 2, op])
    h = None
    ref = state.snapshot(plain, kind)
    import contextlib
    import io

    with contextlib.redirect_stderr(io.StringIO()):  # the library's __del__ may report an ignored exception for such an object
        del b
        gc.collect()
    mon.check(not os.path.exists(path_b), "dropping-the-owner-removes-the-segment", name=path_b, cfg=cfg, history="owner re-pointed at another block before it was dropped")
    mon.check(os.path.exists(path_a), "dropping-a-view-keeps-the-segment", name=path_a, cfg=cfg, history="the view owned a segment of its own")
    d = state.snap_diff(ref, state.snapshot(a, kind))
    mon.check(not d, "dropping-a-view-keeps-owner-contents", differs_in=d, cfg=cfg)
    if os.path.exists(path_b):
        os.unlink(path_b)
    del a
    gc.collect()
    mon.check(not os.path.exists(path_a), "dropping-the-owner-removes-the-segment", name=path_a, cfg=cfg)
    mon.count("reattached_owner_cases")
    mon.seen("reattached_owner_kind", kind)
    mon.nontrivial(True)


def run_repoint(case, ctx, mon):
    """Views that are re-pointed: (a) a view obtained from helpers.attach_shared_memory for block A is re-pointed at block B and
    kept alive, then a second helper view for A is requested - it must show A; (b) a re-point to a name that cannot be opened
    raises, and the view goes on working on the block it was attached to."""
    cfg = case["cfg"]
    kind = cfg["kind"]
    s = sk()
    stype = "hh" if kind == "hh" else ("hll" if kind == "hll" else "cms")
    A, B = make_by(cfg, "factory", True), make_by(cfg, "factory", True)
    pa, pb = make_by(cfg, "factory", False), make_by(cfg, "factory", False)
    universe = ops.universe_of([e[1] for e in case["events"]])[:20]
    is_log = kind in ("log16", "log8")

    def both(plain, handle, op, n):
        if is_log:
            state.share_draws(plain, handle)
            state.numba_seed(case["draw_seed"] + n)
        ops.apply_op(plain, op)
        if is_log:
            state.numba_seed(case["draw_seed"] + n)
        mon.api(ops.apply_op, handle, op)

    evs = [e[1] for e in case["events"]]
    for n, op in enumerate(evs[:3]):
        both(pa, A, op, n)
    for n, op in enumerate(evs[3:5]):
        both(pb, B, op, 50 + n)
    v = s.helpers.attach_shared_memory(stype, A.args, A.shm.name)
    agree(mon, pa, [("A", A), ("helper view of A", v)], kind, universe, cfg, "attach")
    mon.api(v.attach_existing_shm, B.shm.name)
    agree(mon, pb, [("B", B), ("view re-pointed from A to B", v)], kind, universe, cfg, "re-point")
    w = s.helpers.attach_shared_memory(stype, A.args, A.shm.name)  # v is still alive
    agree(mon, pa, [("A", A), ("second helper view of A (the first was re-pointed to B)", w)], kind, universe, cfg, "second helper attach")
    for n, op in enumerate(evs[5:8]):
        both(pa, w, op, 100 + n)
        agree(mon, pa, [("A", A), ("second helper view of A", w)], kind, universe, cfg, ["via w", op])
        agree(mon, pb, [("B", B), ("view re-pointed from A to B", v)], kind, universe, cfg, ["via w", op])
    # (b) a re-point that fails
    x = attach("attach_existing_shm", cfg, A)
    agree(mon, pa, [("view x of A", x)], kind, universe, cfg, "attach x")
    try:
        x.attach_existing_shm("psm_vmon_no_such_block")
        raised = None
    except Exception as exc:  # noqa: BLE001
        raised = type(exc).__name__
    mon.check(raised is not None, "re-point-to-a-missing-block-raises", cfg=cfg)
    agree(mon, pa, [("A", A), ("view x after a failed re-point", x)], kind, universe, cfg, "failed re-point")
    for n, op in enumerate(evs[8:10]):
        both(pa, x, op, 200 + n)
        agree(mon, pa, [("A", A), ("view x after a failed re-point", x), ("second helper view of A", w)], kind, universe, cfg, ["via x after a failed re-point", op])
    # (c) a view whose array attribute the user replaced by a private copy is attached to the same block again: it is a view again
    y = attach("attach_existing_shm", cfg, A)
    main = state.ARRAYS[kind][0]
    setattr(y, main, getattr(y, main).copy())
    mon.api(y.attach_existing_shm, A.shm.name)
    for n, op in enumerate(evs[3:5]):
        both(pa, A, op, 300 + n)
    agree(mon, pa, [("A", A), ("view re-attached to the block it was already attached to, after its array had been replaced", y)], kind, universe, cfg,
          "re-attach to the same name")
    path_a, path_b = "/dev/shm/" + A.shm.name.lstrip("/"), "/dev/shm/" + B.shm.name.lstrip("/")
    del v, w, x, y
    gc.collect()
    mon.check(os.path.exists(path_a) and os.path.exists(path_b), "dropping-a-view-keeps-the-segment", cfg=cfg)
    del A, B
    gc.collect()
    mon.check(not os.path.exists(path_a) and not os.path.exists(path_b), "dropping-the-owner-removes-the-segment", cfg=cfg)
    mon.count("repoint_cases")
    mon.seen("repoint_kind", kind)
    mon.nontrivial(True)


def run_cyclic_garbage(case, ctx, mon):
    """The owner is dropped while a slice of its public array is still referenced - but only from cyclic garbage that the
    collector has not visited yet.  The library's own clean-up (collect, pause, close, unlink) must still remove the segment.
    Runs with the modules' real gc and sleep."""
    cfg = case["cfg"]
    kind = cfg["kind"]
    state.fast_del(False)
    was = gc.isenabled()
    gc.disable()
    try:
        owner = make_by(cfg, "factory", True)
        owner.add(b"k", 2)
        path = "/dev/shm/" + owner.shm.name.lstrip("/")
        main = state.ARRAYS[kind][0]
        cyc = [getattr(owner, main)[:1]]
        cyc.append(cyc)
        del cyc  # garbage now, reachable only through its own cycle
        import contextlib
        import io

        with contextlib.redirect_stderr(io.StringIO()):
            del owner
        gc.collect()
        leaked = os.path.exists(path)
        if leaked:
            os.unlink(path)
        mon.check(not leaked, "dropping-the-owner-removes-the-segment", cfg=cfg, how="a slice of the owner's array was alive only in uncollected cyclic garbage")
    finally:
        if was:
            gc.enable()
        state.fast_del(True)
    mon.count("cyclic_garbage_cases")
    mon.seen("cyclic_garbage_kind", kind)
    mon.nontrivial(True)


def _fork_child(cfg, wfd):
    """Runs in a forked child: owner + view life-cycle with the library as the parent imported it; reports through a pipe."""
    import json

    out = {"stage": "start"}
    try:
        kind = cfg["kind"]
        owner = make_by(cfg, "factory", True)
        name = owner.shm.name.lstrip("/")
        out["name"] = name
        out["exists_after_create"] = os.path.exists("/dev/shm/" + name)
        owner.add(b"k1", 3)
        view = attach("helpers.attach_shared_memory", cfg, owner)
        view.add(b"k2", 2)
        if kind == "hll":
            out["view_agrees"] = bool(np.array_equal(view.registers, owner.registers)) and float(view.query()) > 0
        elif kind == "hh":
            out["view_agrees"] = (bool(np.array_equal(view.lhh_count, owner.lhh_count)) and bool(np.array_equal(view.lhh, owner.lhh))
                                  and int(owner.lhh_count.sum()) > 0 and int(view.n_added()) == int(owner.n_added()) == 5)
        else:
            out["view_agrees"] = (bool(np.array_equal(view.cms, owner.cms)) and int(owner.cms.sum()) > 0
                                  and float(owner.query(b"k2")) == float(view.query(b"k2")) and int(view.n_added()) == int(owner.n_added()) == 5)
        del view
        gc.collect()
        out["exists_after_view_dropped"] = os.path.exists("/dev/shm/" + name)
        del owner
        gc.collect()
        out["exists_after_owner_dropped"] = os.path.exists("/dev/shm/" + name)
        out["stage"] = "done"
    except BaseException as exc:  # noqa: BLE001
        out["error"] = f"{type(exc).__name__}: {exc}"[:300]
    try:
        os.write(wfd, json.dumps(out).encode())
    finally:
        os._exit(0)


def run_forked_owner(case, ctx, mon):
    """The owner is created (and dropped) in a child process forked after the library was imported - the default way a
    multiprocessing worker comes to life on Linux."""
    import json
    import select
    import signal

    cfg = case["cfg"]
    rfd, wfd = os.pipe()
    pid = os.fork()
    if pid == 0:
        os.close(rfd)
        _fork_child(cfg, wfd)
    os.close(wfd)
    buf = b""
    ready, _, _ = select.select([rfd], [], [], 120)
    if ready:
        while True:
            chunk = os.read(rfd, 65536)
            if not chunk:
                break
            buf += chunk
    else:
        os.kill(pid, signal.SIGKILL)
    os.close(rfd)
    os.waitpid(pid, 0)
    if not buf:
        mon.inconclusive.append("forked child did not report within 120 s (killed)")
        return
    out = json.loads(buf.decode())
    path = "/dev/shm/" + out.get("name", "?")
    mon.check("error" not in out, "owner-life-cycle-in-a-forked-process-runs", error=out.get("error"), cfg=cfg)
    mon.check(out.get("exists_after_create") is True, "owner-segment-exists", where="forked child", cfg=cfg)
    mon.check(out.get("view_agrees") is True, "handle-state==ordinary-sketch-state", where="forked child", cfg=cfg)
    mon.check(out.get("exists_after_view_dropped") is True, "dropping-a-view-keeps-the-segment", where="forked child", cfg=cfg)
    leaked = out.get("exists_after_owner_dropped") is not False or os.path.exists(path)
    if os.path.exists(path):
        os.unlink(path)
    mon.check(not leaked, "dropping-the-owner-removes-the-segment", where="owner created and dropped in a forked child process", name=out.get("name"), cfg=cfg)
    mon.count("forked_owner_cases")
    mon.seen("forked_owner_kind", cfg["kind"])
    mon.nontrivial(True)


TEMPLATES = (
    # (round 8, seed C16-N) a resource a view released is handed to the next owner, and released once more when the view is dropped
    ["own 0", "view 0", "own 1", "dropview 0", "drop 1", "drop 0"],
    ["own 0", "view 0", "view 0", "own 1", "own 2", "dropview 0", "drop 2", "dropview 0", "drop 1", "drop 0"],
    ["own 0", "own 1", "view 1", "drop 0", "own 2", "dropview 1", "drop 2", "drop 1"],
)


def run_interleaved(case, ctx, mon):
    """Owners and views of several classes created and dropped in an interleaved order: whatever an earlier handle released
    (descriptor numbers, names, addresses) is handed to the next one.  After every step each live owner still holds its contents;
    a dropped view leaves its segment, a dropped owner's segment is gone, and no other owner's segment disappears with it."""
    cfgs = case["cfgs"]
    owners, views = {}, {}

    def content_ok(i):
        o, cfg = owners[i]["obj"], cfgs[i % len(cfgs)]
        k = b"owner-%d" % i
        if cfg["kind"] == "hll":
            return float(o.query()) > 0
        return float(o[k] if cfg["kind"] == "hh" else o.query(k)) >= 1

    for step in case["steps"]:
        what, i = step.split()
        i = int(i)
        cfg = cfgs[i % len(cfgs)]
        if what == "own":
            o = make_by(cfg, "class", True)
            o.add(b"owner-%d" % i) if cfg["kind"] in ("hll", "hh") else o.add(b"owner-%d" % i, 3)
            owners[i] = {"obj": o, "path": "/dev/shm/" + o.shm.name}
            del o
        elif what == "view":
            if i in owners:
                views.setdefault(i, []).append(attach(case.get("attach", "attach_existing_shm"), cfg, owners[i]["obj"]))
        elif what == "dropview":
            if views.get(i):
                v = views[i].pop()
                del v
                mon.check(os.path.exists(owners[i]["path"]), "dropping-a-view-keeps-the-segment", cfg=cfg, steps=case["steps"], at=step)
        elif what == "drop":
            if i in owners and not views.get(i):
                ent = owners.pop(i)
                path = ent["path"]
                ent.clear()
                del ent
                mon.check(not os.path.exists(path), "dropping-the-owner-removes-the-segment", cfg=cfg, steps=case["steps"], at=step,
                          history="owners and views of several sketches created and dropped in an interleaved order")
        for j in list(owners):
            mon.check(os.path.exists(owners[j]["path"]), "a-live-owner-keeps-its-segment", owner=j, steps=case["steps"], at=step)
            mon.check(content_ok(j), "a-live-owner-keeps-its-contents", owner=j, steps=case["steps"], at=step)
    for i in list(views):
        while views[i]:
            v = views[i].pop()
            del v
    for i in list(owners):
        ent = owners.pop(i)
        path = ent["path"]
        ent.clear()
        mon.check(not os.path.exists(path), "dropping-the-owner-removes-the-segment", steps=case["steps"], at="end")
    mon.count("interleaved_lifetime_cases")
    mon.nontrivial(True)


def gen_interleaved(rng, ctx):
    for t, tpl in enumerate(TEMPLATES):
        for rep in range(2 if ctx.quick else 5):
            kinds = [state.ALL_KINDS[(t + rep + j) % 5] for j in range(3)]
            yield {"scenario": "interleaved", "cfgs": [gen_cfg(rng, k) for k in kinds], "steps": list(tpl),
                   "attach": "attach_existing_shm" if rep % 2 == 0 else "helpers.attach_shared_memory"}
    for rep in range(6 if ctx.quick else 40):
        steps, own, nview = [], set(), {}
        for _ in range(int(rng.integers(8, 20))):
            r = rng.random()
            i = int(rng.integers(0, 3))
            if r < 0.3 and i not in own:
                steps.append(f"own {i}"); own.add(i)
            elif r < 0.55 and i in own:
                steps.append(f"view {i}"); nview[i] = nview.get(i, 0) + 1
            elif r < 0.8 and nview.get(i):
                steps.append(f"dropview {i}"); nview[i] -= 1
            elif i in own and not nview.get(i):
                steps.append(f"drop {i}"); own.discard(i)
        yield {"scenario": "interleaved", "cfgs": [gen_cfg(rng, state.ALL_KINDS[int(rng.integers(0, 5))]) for _ in range(3)], "steps": steps}


def gen_cases(ctx):
    rng = ctx.rng("cases")
    yield from gen_interleaved(ctx.rng("interleaved"), ctx)
    n = 250 if ctx.quick else 10**9
    for i in range(n):
        c = gen_case(rng, ctx, state.ALL_KINDS[i % 5])
        if i % 25 >= 20:
            c["scenario"] = "reattached-owner"
        elif i % 25 >= 15:
            c["scenario"] = "repoint"
            while len(c["events"]) < 10:
                c["events"].append([0, ops.gen_op(rng, [unhx(k) for k in c["strangers"]] + [b"rp"], max_value=300 if c["cfg"]["kind"] in ("log16", "log8") else None, big=0.1)])
        yield c
        if i % 50 < 5:
            yield {"scenario": "forked-owner", "cfg": gen_cfg(rng, state.ALL_KINDS[i % 5])}
        if i < 5:
            yield {"scenario": "cyclic-garbage", "cfg": gen_cfg(rng, state.ALL_KINDS[i % 5])}


def run_any(case, ctx, mon):
    sc = case.get("scenario")
    if sc == "reattached-owner":
        run_reattached_owner(case, ctx, mon)
    elif sc == "repoint":
        run_repoint(case, ctx, mon)
    elif sc == "cyclic-garbage":
        run_cyclic_garbage(case, ctx, mon)
    elif sc == "forked-owner":
        run_forked_owner(case, ctx, mon)
    elif sc == "interleaved":
        run_interleaved(case, ctx, mon)
    else:
        run_case(case, ctx, mon)


def run(ctx, mon):
    state.fast_del(True)
    # the segment-presence checks need deterministic finalisation: collect with the real collector explicitly
    state.numba_seed(1)
    from ..common import shm_created_alive, track_shm

    track_shm()
    run_cases(ctx, mon, gen_cases(ctx), run_any)
    gc.collect()
    left = shm_created_alive()
    mon.begin_case({"census": "end of run"})
    mon.check(not left, "no-shared-memory-segment-left-behind", names=left[:10])
    mon.end_case()


def replay(case, ctx, mon):
    state.fast_del(True)
    if "census" in case:
        return
    run_any(case, ctx, mon)


def floors(mon, ctx):
    for kind in state.ALL_KINDS:
        mon.floor(f"cases of {kind}", mon.counters[f"cases:{kind}"], 10)
        if kind != "hll":
            mon.floor(f"unaligned cases of {kind}", mon.counters[f"unaligned_cases:{kind}"], 1)
    mon.floor("owners re-pointed at another block before being dropped (kinds)", len(mon.classes["reattached_owner_kind"]), 5)
    mon.floor("owners created and dropped in a forked child (kinds)", len(mon.classes["forked_owner_kind"]), 5)
    mon.floor("kinds whose owner was dropped with a slice alive in cyclic garbage", len(mon.classes["cyclic_garbage_kind"]), 5)
    mon.floor("kinds with re-pointed views", len(mon.classes["repoint_kind"]), 5)
    mon.floor("deletion orders", len(mon.classes["drop_order"]), 2)
    mon.floor("operations through a view", mon.counters["ops_via:view"], 100)
    mon.floor("merges out of / into handles", mon.counters["merges_through_handles"], 50)
    mon.floor("views attached late", mon.counters["late_views"], 50)
    mon.floor("owners built by load(shared_memory=True)", len([x for x in mon.classes["owner_built_by"] if x.endswith(":load")]), 4)
