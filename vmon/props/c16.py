"""C16 - shared-memory and attached sketches behave exactly like in-memory ones."""
from __future__ import annotations

import gc
import os

import numpy as np

from .. import ops, state
from ..common import hx, key_family, pick, rand_key, run_cases, shm_census, sk, unhx

ID = "C16"
LEVEL = "exploration"
TECHNIQUE = "lock-step differential monitor between an ordinary sketch, a shared_memory=True owner and 1-2 attached views (operations routed to a random handle, whole public state of every handle compared after each), plus a /dev/shm segment-presence monitor across deletion orders and a leak census"
RULE = ("case = (class, shape with odd byte sizes, number of views, how each view is attached (helpers.attach_shared_memory or "
        "attach_existing_shm), event list with the handle that executes each event, deletion order); non-trivial = the bookkeeping counters "
        "of the shape are unaligned (offset not a multiple of 8; heavy-hitter key area not a multiple of 4) or more than one handle executed "
        "operations; distinct = by case digest")
ASSUMPTIONS = ["all handles live in one process (cross-process attachment is exercised by the real spawned runs of C08/C19)",
               "the modules' sleep()/gc names are rebound by the harness so that dropping a handle does not cost 0.25 s; the segment checks use the real /dev/shm"]
LEVEL_TEXT = ("All five classes with shapes chosen to misalign every region of the shared block; every operation is executed on the ordinary "
              "sketch and on one handle of the shared block, and all handles must agree with it afterwards; both deletion orders are observed "
              "on the real /dev/shm.")
LEVEL_NOTE = "state equality on the documented arrays and parameters, queries included; log types under identical draws"
BUDGET = {"quick": 75, "thorough": 300}
SHARDS = {"quick": 1, "thorough": 16}
BOUNDSCHECK = True
SHM_LEAK_IS_VIOLATION = True


def gen_cfg(rng, kind):
    odd = lambda lo, hi: int(rng.integers(lo, hi)) * 2 + 1  # noqa: E731
    if kind == "linear":
        return {"kind": kind, "width": odd(0, 8), "depth": odd(0, 3)}
    if kind == "log16":
        return {"kind": kind, "width": pick(rng, [1, 3, 5, 7, 9, 2, 6]), "depth": pick(rng, [1, 3]), "max_count": pick(rng, [70000, 2**32 - 1]),
                "num_reserved": pick(rng, [0, 50, 1023])}
    if kind == "log8":
        return {"kind": kind, "width": pick(rng, [1, 3, 5, 7, 9, 11, 2]), "depth": pick(rng, [1, 3]), "max_count": pick(rng, [1000, 2**32 - 1]),
                "num_reserved": pick(rng, [0, 15])}
    if kind == "hh":
        return {"kind": kind, "width": pick(rng, [1, 2, 3, 5]), "depth": pick(rng, [1, 2, 3]), "max_key_len": pick(rng, [1, 3, 5, 7, 9, 4])}
    return {"kind": "hll", "p": pick(rng, [7, 8, 9]), "seed": pick(rng, [0, 2**63 + 1])}


def unaligned(cfg):
    k = cfg["kind"]
    if k == "hll":
        return False
    wd = cfg["width"] * cfg["depth"]
    if k == "linear":
        return (4 * wd) % 8 != 0
    if k == "log16":
        return (2 * wd) % 8 != 0
    if k == "log8":
        return wd % 8 != 0
    return (cfg["max_key_len"] * wd) % 4 != 0 or (cfg["max_key_len"] * wd + 5 * wd) % 8 != 0


def gen_case(rng, ctx, kind):
    cfg = gen_cfg(rng, kind)
    keys = key_family(rng, int(rng.integers(2, 8)), 0, 10)
    n_views = int(rng.integers(1, 3))
    maxv = 300 if kind in ("log16", "log8") else None
    events = []
    for _ in range(int(rng.integers(3, 25))):
        events.append([int(rng.integers(0, n_views + 1)), ops.gen_op(rng, keys, max_value=maxv, big=0.1)])
    return {"cfg": cfg, "views": [pick(rng, ["helpers.attach_shared_memory", "attach_existing_shm"]) for _ in range(n_views)],
            "events": events, "drop_order": pick(rng, ["views-first", "owner-first"]), "strangers": [hx(rand_key(rng, 0, 5))],
            "built_by": pick(rng, ["factory", "class", "load"]),
            "draw_seed": int(rng.integers(1, 2**30))}


def make_by(cfg, how, shared_memory):
    s = sk()
    kind = cfg["kind"]
    if how == "class" and kind in state.CMS_KINDS:
        if kind == "linear":
            return s.CountMinLinear(cfg["width"], cfg["depth"], shared_memory=shared_memory)
        cls = s.CountMinLog16 if kind == "log16" else s.CountMinLog8
        return cls(cfg["width"], cfg["depth"], cfg["max_count"], cfg["num_reserved"], shared_memory=shared_memory)
    return state.make(cfg, shared_memory=shared_memory)


def attach(how, cfg, owner):
    s = sk()
    kind = cfg["kind"]
    stype = "hh" if kind == "hh" else ("hll" if kind == "hll" else "cms")
    if how == "helpers.attach_shared_memory":
        return s.helpers.attach_shared_memory(stype, owner.args, owner.shm.name)
    v = state.make(cfg)
    # a local sketch that has already lived a little (adds, a merge, a query) before it is pointed at the shared block
    v.add(b"local-history", 3)
    w = state.make(cfg)
    w.add(b"local-history-2", 2)
    v.merge(w)
    if kind == "hll":
        v.query()
    elif kind == "hh":
        v.query(5)
        v.query(5, 0)
    else:
        v.query(b"local-history")
    v.attach_existing_shm(owner.shm.name)
    return v


def agree(mon, plain, handles, kind, universe, cfg, after):
    ref = state.snapshot(plain, kind)
    for name, h in handles:
        d = state.snap_diff(ref, state.snapshot(h, kind), params=True)
        mon.check(not d, "handle-state==ordinary-sketch-state", handle=name, differs_in=d, after=after, cfg=cfg)
        if kind in state.CMS_KINDS:
            for k in universe:
                if h.query(k) != plain.query(k):
                    mon.check(False, "handle-query==ordinary-query", handle=name, key=hx(k), got=float(h.query(k)), want=float(plain.query(k)), after=after, cfg=cfg)
            mon.tick("handle-query==ordinary-query", len(universe))
            mon.check(int(h.n_added()) == int(plain.n_added()) and int(h.n_records()) == int(plain.n_records()), "handle-bookkeeping==ordinary", handle=name,
                      got=[int(h.n_added()), int(h.n_records())], want=[int(plain.n_added()), int(plain.n_records())], after=after, cfg=cfg)
        elif kind == "hh":
            for k in universe:
                if int(h[k]) != int(plain[k]):
                    mon.check(False, "handle-query==ordinary-query", handle=name, key=hx(k), got=int(h[k]), want=int(plain[k]), after=after, cfg=cfg)
            mon.tick("handle-query==ordinary-query", len(universe))
            a, b = h.query(10**9, 0), plain.query(10**9, 0)
            mon.check(sorted((bytes(x), int(c)) for x, c in a) == sorted((bytes(x), int(c)) for x, c in b), "handle-topk==ordinary-topk", handle=name, after=after, cfg=cfg)
            mon.check(int(h.n_added()) == int(plain.n_added()), "handle-bookkeeping==ordinary", handle=name, after=after, cfg=cfg)
        else:
            mon.check(float(h.query()) == float(plain.query()), "handle-query==ordinary-query", handle=name, after=after, cfg=cfg)


def run_case(case, ctx, mon):
    cfg = case["cfg"]
    kind = cfg["kind"]
    is_log = kind in ("log16", "log8")
    # owner / ordinary sketch built through the class constructor or through the CountMin() factory; views through
    # helpers.attach_shared_memory (factory) or attach_existing_shm: all routes must agree on every parameter
    how = case.get("built_by", "factory")
    plain = make_by(cfg, how if how != "load" else "factory", False)
    if how == "load":
        # the shared-memory owner comes out of load(..., shared_memory=True) of a non-empty saved sketch
        for op in case["events"][:3]:
            ops.apply_op(plain, op[1])
        if kind != "hll":
            plain.n_added_records[1] = np.uint64(7)
        owner = state.save_load(plain, kind, True, bool(kind in state.CMS_KINDS and case["draw_seed"] % 2))
    else:
        owner = make_by(cfg, how, True)
    mon.seen("owner_built_by", f"{kind}:{how}")
    name = owner.shm.name.lstrip("/")
    path = "/dev/shm/" + name
    mon.check(os.path.exists(path), "owner-segment-exists", name=name)
    views = [attach(how, cfg, owner) for how in case["views"]]
    handles = [("owner", owner)] + [(f"view{i}:{how}", v) for i, (how, v) in enumerate(zip(case["views"], views))]
    universe = ops.universe_of([e[1] for e in case["events"]], extra=[unhx(s) for s in case["strangers"]])[:30]
    if kind != "hll":
        owner.n_added_records[1] = np.uint64(7)
        plain.n_added_records[1] = np.uint64(7)
    for pname in ("max_count", "num_reserved", "width", "depth", "p", "seed", "max_key_len"):
        if pname in cfg:
            for hname, hobj in [("ordinary", plain)] + handles:
                mon.check(int(getattr(hobj, pname)) == int(cfg[pname]), "handle-has-the-requested-parameter", handle=hname, parameter=pname,
                          got=int(getattr(hobj, pname)), want=int(cfg[pname]), cfg=cfg, built_by=how)
    agree(mon, plain, handles, kind, universe, cfg, "attach")
    late_at = len(case["events"]) // 2
    used = set()
    for n_op, (hi, op) in enumerate(case["events"]):
        if n_op == late_at and n_op > 0:
            # a view attached late, to a block that already holds data, must see it at once (also with threshold 0)
            lv = attach(pick(np.random.default_rng(case["draw_seed"]), ["helpers.attach_shared_memory", "attach_existing_shm"]), cfg, owner)
            views.append(lv)
            handles.append(("late-view", lv))
            agree(mon, plain, handles[-1:], kind, universe, cfg, "late attach")
            mon.count("late_views")
            lv = None
        hi = hi % len(handles)
        hname, h = handles[hi]
        used.add(hi)
        if is_log:
            state.share_draws(plain, h)
            state.numba_seed(case["draw_seed"] + n_op)
        mon.api(ops.apply_op, plain, op)
        if is_log:
            state.numba_seed(case["draw_seed"] + n_op)
        mon.api(ops.apply_op, h, op)
        agree(mon, plain, handles, kind, universe, cfg, [hname, op])
        mon.count(f"ops_via:{'owner' if hi == 0 else 'view'}")
        if n_op % 4 == 3:
            # merges out of a handle (into a fresh ordinary sketch) and into a handle must equal the ordinary sketch's
            other_name, other_h = handles[(hi + 1) % len(handles)]
            t_ref, t_h = state.make(cfg), state.make(cfg)
            t_ref.merge(plain)
            mon.api(t_h.merge, other_h)
            d = state.snap_diff(state.snapshot(t_ref, kind), state.snapshot(t_h, kind))
            mon.check(not d, "merging-a-handle-into-a-fresh-sketch==merging-the-ordinary-sketch", handle=other_name, differs_in=d, after=[hname, op], cfg=cfg)
            extra = state.make(cfg)
            extra.add(b"extra-key", 2)
            if is_log:
                state.share_draws(plain, other_h)
            plain.merge(extra)
            mon.api(other_h.merge, extra)
            agree(mon, plain, handles, kind, universe, cfg, [other_name, "merge(extra)"])
            if n_op % 8 == 7 and len(handles) > 1:
                # both operands are handles on the SAME block (and, for the ordinary sketch, the sketch itself)
                if is_log:
                    state.share_draws(plain, handles[0][1])
                plain.merge(plain)
                mon.api(handles[0][1].merge, handles[1][1])
                agree(mon, plain, handles, kind, universe, cfg, ["owner.merge(view of the same block)"])
                mon.count("merges_of_two_handles_on_one_block")
            mon.count("merges_through_handles")
            other_h = t_h = t_ref = extra = None  # no stray reference may keep a handle alive (deletion orders are observed below)
    mon.count(f"cases:{kind}")
    if unaligned(cfg):
        mon.count(f"unaligned_cases:{kind}")
    # ---- deletion orders
    ref = state.snapshot(plain, kind)
    del handles, h
    if case["drop_order"] == "views-first":
        while views:
            v = views.pop()
            del v
            gc.collect()
            mon.check(os.path.exists(path), "dropping-a-view-keeps-the-segment", name=name, cfg=cfg)
            d = state.snap_diff(ref, state.snapshot(owner, kind))
            mon.check(not d, "dropping-a-view-keeps-owner-contents", differs_in=d, cfg=cfg)
            mon.count("views_dropped_before_owner")
        del owner
        gc.collect()
        mon.check(not os.path.exists(path), "dropping-the-owner-removes-the-segment", name=name, cfg=cfg)
        mon.count("owners_dropped")
    else:
        del owner
        gc.collect()
        mon.check(not os.path.exists(path), "dropping-the-owner-removes-the-segment", name=name, cfg=cfg, still_attached_views=len(views))
        mon.count("owners_dropped_before_views")
        # a view that is still attached keeps seeing the data it had
        d = state.snap_diff(ref, state.snapshot(views[0], kind))
        mon.check(not d, "attached-view-still-reads-its-data-after-owner-dropped", differs_in=d, cfg=cfg)
        while views:
            v = views.pop()
            del v
            gc.collect()
        mon.check(not os.path.exists(path), "segment-stays-removed", name=name, cfg=cfg)
    mon.seen("drop_order", case["drop_order"])
    mon.nontrivial(unaligned(cfg) or len(used) > 1)


def gen_cases(ctx):
    rng = ctx.rng("cases")
    n = 250 if ctx.quick else 10**9
    for i in range(n):
        yield gen_case(rng, ctx, state.ALL_KINDS[i % 5])


def run(ctx, mon):
    state.fast_del(True)
    # the segment-presence checks need deterministic finalisation: collect with the real collector explicitly
    state.numba_seed(1)
    from ..common import shm_created_alive, track_shm

    track_shm()
    run_cases(ctx, mon, gen_cases(ctx), run_case)
    gc.collect()
    left = shm_created_alive()
    mon.begin_case({"census": "end of run"})
    mon.check(not left, "no-shared-memory-segment-left-behind", names=left[:10])
    mon.end_case()


def replay(case, ctx, mon):
    state.fast_del(True)
    if "census" in case:
        return
    run_case(case, ctx, mon)


def floors(mon, ctx):
    for kind in state.ALL_KINDS:
        mon.floor(f"cases of {kind}", mon.counters[f"cases:{kind}"], 10)
        if kind != "hll":
            mon.floor(f"unaligned cases of {kind}", mon.counters[f"unaligned_cases:{kind}"], 1)
    mon.floor("deletion orders", len(mon.classes["drop_order"]), 2)
    mon.floor("operations through a view", mon.counters["ops_via:view"], 100)
    mon.floor("merges out of / into handles", mon.counters["merges_through_handles"], 50)
    mon.floor("views attached late", mon.counters["late_views"], 50)
    mon.floor("owners built by load(shared_memory=True)", len([x for x in mon.classes["owner_built_by"] if x.endswith(":load")]), 4)
