"""C14 - row hashes are uniform and independent, so depth buys the documented exp(-depth) bound."""
from __future__ import annotations

import math
from collections import Counter

import numpy as np

from .. import state
from ..common import hx, pick, run_cases, sk

ID = "C14"
LEVEL = "exploration"
TECHNIQUE = "statistical monitors on observed cell ownership: per-row uniformity and pairwise row independence (chi-square on the joint column table of every pair of rows, columns read off probe sketches), constructed single-row hash collisions that must stay single-row, and the documented error bound on Zipf streams (fraction of keys above true + e*N/width must be <= exp(-depth))"
RULE = ("cases: (a) (sketch family, width, depth, 20000 random keys): chi-square(width-1) per row <= limit and chi-square((width-1)^2 "
        "product table) for every pair of rows <= limit (limits at < 1e-12 under the null); (b) (width in {32,64,128}, depth 8, Zipf stream "
        "of >= 5000 random keys, N = 2*10^5): number of keys with estimate > true + e*N/width <= floor(exp(-8)*V); (c) (family, width 32, "
        "depth 8): for every r < depth, pairs of distinct 16/24-byte keys constructed to have equal 64-bit FastHash under seed r: no pair "
        "shares all rows, the other rows are shared at rate 1/width, and query(b) == 0 after add(a); non-trivial = every "
        "case (each has >= 2 rows / a heavy key above e*N/width); distinct = by (family, shape, key-set seed)")
ASSUMPTIONS = ["dependence weaker than the chi-square resolution at 20000 keys is not resolved", "random keys of 1..24 bytes; Zipf exponent ~1.1"]
LEVEL_TEXT = ("Observes the joint distribution of the d cells owned by random keys for all four kernels that hash per row (linear, log16, log8, "
              "heavy hitters) at depths up to 8 and the resulting error bound on adversarially heavy-tailed streams.")
LEVEL_NOTE = "thresholds derived from chi-square tails (Wilson-Hilferty at z = 7.5); a correct tree fails with probability < 1e-9 per run"
BUDGET = {"quick": 90, "thorough": 300}
SHARDS = {"quick": 1, "thorough": 16}


def chi2_limit(df, z=7.5):
    return df * (1 - 2 / (9 * df) + z * math.sqrt(2 / (9 * df))) ** 3 * 1.05 + 5


def run_uniform(case, ctx, mon):
    fam, w, d, n = case["family"], case["width"], case["depth"], case["n_keys"]
    cfg = {"kind": fam, "width": w, "depth": d}
    if fam == "hh":
        cfg["max_key_len"] = 24
    pr = state.NativeProber(cfg)
    pr.via = case.get("via", "add")
    if pr.via == "ndarray":
        try:
            pr.cells(b"probe")
        except TypeError:
            mon.count("ndarray_of_keys_refused_by_this_tree")
            mon.nontrivial(True)
            return
        pr.cache.clear()
    rng = np.random.default_rng(case["seed"])
    cols = np.zeros((n, d), np.int64)
    seen = set()
    i = 0
    lo, hi = case.get("key_len", (1, 24))
    if fam == "hh":
        cfg["max_key_len"] = min(max(24, hi), 255)
        pr = state.NativeProber(cfg)
    while i < n:
        ln = int(rng.integers(lo, hi + 1))
        k = rng.bytes(ln)
        if pr.via == "ndarray" and (k.endswith(b"\x00") or not k):
            continue  # NumPy's S dtype cannot represent trailing NULs or distinguish the empty key
        if k in seen:
            continue
        seen.add(k if ln <= 64 else hash(k))
        if ln > 64:
            pr.cache.clear()
        try:
            cols[i] = pr.cells(k)
        except state.Prober.ProbeAnomaly as exc:
            mon.check(False, "one-add-owns-one-cell-per-row", error=str(exc), key=hx(k), cfg=cfg)
        i += 1
    pr.cache.clear()
    exp_row = n / w
    for r in range(d):
        cnt = np.bincount(cols[:, r], minlength=w).astype(np.float64)
        chi = float(np.sum((cnt - exp_row) ** 2 / exp_row))
        mon.check(chi <= chi2_limit(w - 1), "row-columns-uniform(chi-square)", row=r, chi2=chi, limit=chi2_limit(w - 1), cfg=cfg)
        mon.extra(max_row_chi2=max(mon._extra.get("max_row_chi2", 0.0), chi)) if False else None
        mon._extra["max_row_chi2"] = max(mon._extra.get("max_row_chi2", 0.0), round(chi, 1))
    exp_pair = n / (w * w)
    for a in range(d):
        for b in range(a + 1, d):
            joint = np.bincount(cols[:, a] * w + cols[:, b], minlength=w * w).astype(np.float64)
            chi = float(np.sum((joint - exp_pair) ** 2 / exp_pair))
            df = w * w - 1
            mon.check(chi <= chi2_limit(df), "row-pair-independent(chi-square-on-joint-table)", rows=[a, b], chi2=chi, limit=chi2_limit(df), cfg=cfg)
            mon._extra["max_pair_chi2"] = max(mon._extra.get("max_pair_chi2", 0.0), round(chi, 1))
            mon.count("row_pairs_tested")
            mon.seen("row_pair", f"{fam}:{a}-{b}")
    mon.count("uniform_cases")
    mon.seen("probed_via", pr.via)
    mon.seen("key_length_class", "1..24" if hi <= 24 else ("25..300" if hi <= 300 else ("301..2000" if hi <= 2000 else ">=4096")))
    mon.seen("family", fam)
    mon.nontrivial(d >= 2)


def run_zipf(case, ctx, mon):
    w, d, V, N = case["width"], 8, case["n_keys"], case["N"]
    rng = np.random.default_rng(case["seed"])
    keys = list({bytes(rng.integers(0, 256, int(rng.integers(2, 17)), dtype=np.uint8)) for _ in range(V + 50)})[:V]
    ranks = np.arange(1, len(keys) + 1, dtype=np.float64)
    pz = ranks ** -1.1
    pz /= pz.sum()
    draws = rng.choice(len(keys), N, p=pz)
    true = Counter(draws.tolist())
    s = state.make({"kind": "linear", "width": w, "depth": d})
    # feed in stream order in chunks (conservative update is order dependent; any order must satisfy the bound)
    s.update([keys[i] for i in draws.tolist()])
    n_added = int(s.n_added())
    slack = math.e * n_added / w
    offenders = 0
    heavy = sum(1 for i, c in true.items() if c > slack)
    for i, k in enumerate(keys):
        est = int(s.query(k))
        if est > true.get(i, 0) + slack:
            offenders += 1
    limit = int(math.floor(math.exp(-d) * len(keys)))
    mon.check(offenders <= limit, "keys-above-true+e*N/width<=exp(-depth)*V", offenders=offenders, limit=limit, width=w, depth=d, N=n_added, V=len(keys),
              heavy_keys=heavy)
    mon.check(n_added == N, "n_added==stream-length", n_added=n_added, N=N)
    mon.count("zipf_cases")
    mon.count("zipf_heavy_keys", heavy)
    mon.seen("zipf_width", w)
    mon._extra["max_offenders"] = max(mon._extra.get("max_offenders", 0), offenders)
    mon.nontrivial(heavy >= 1)


def run_collide(case, ctx, mon):
    """Pairs of distinct keys constructed (by inverting the reference FastHash) to have the same full 64-bit hash under one seed
    r.  If the sketch hashes row r with that seed the pair shares row r; whatever the seeds are, independent rows mean the pair
    shares each *other* row with probability 1/width only - and never reads each other's counts through all rows at once."""
    from ..refs import hashes_ref

    fam, w, d, K = case["family"], case["width"], case["depth"], case["pairs"]
    cfg = {"kind": fam, "width": w, "depth": d}
    if fam == "hh":
        cfg["max_key_len"] = 24
    pr = state.NativeProber(cfg)
    rng = np.random.default_rng(case["seed"])
    shared_other = 0
    shared_r = 0
    all_shared = 0
    n_pairs = 0
    direct = state.make(cfg) if fam != "hh" else None
    for r in range(d):
        for _ in range(K):
            nb = int(pick(rng, [2, 2, 3]))
            a = bytes(rng.integers(0, 256, 8 * nb, dtype=np.uint8))
            b0 = bytes(rng.integers(0, 256, 8 * nb, dtype=np.uint8))
            target = hashes_ref.fasthash64_states(a, r)[-1]
            b, _ = hashes_ref.fasthash64_steer(b0, r, nb, target)
            if a == b or hashes_ref.fasthash64(a, r) != hashes_ref.fasthash64(b, r):
                mon.check(False, "harness:constructed-pair-collides-under-the-reference-hash", a=hx(a), b=hx(b), seed=r)
            try:
                ca = pr.cells(a)
                cb = pr.cells(b)
            except state.Prober.ProbeAnomaly as exc:
                mon.check(False, "one-add-owns-one-cell-per-row", error=str(exc), a=hx(a), b=hx(b), cfg=cfg)
            same = [ca[x] == cb[x] for x in range(d)]
            shared_r += int(same[r])
            shared_other += sum(same) - int(same[r])
            n_pairs += 1
            if all(same):
                all_shared += 1
                mon.check(False, "keys-equal-under-one-row-hash-do-not-share-every-row", a=hx(a), b=hx(b), hash_seed=r, cells_a=list(ca), cells_b=list(cb), cfg=cfg)
            if direct is not None:
                direct.add(a, 50)
                qb = float(direct.query(b))
                direct.cms[:] = 0
                direct.n_added_records[:] = 0
                mon.check(qb == 0.0, "count-of-one-key-not-read-by-a-key-equal-under-one-row-hash", a=hx(a), b=hx(b), hash_seed=r, query_b=qb, cfg=cfg)
    mean = n_pairs * (d - 1) / w
    limit = mean + 8 * math.sqrt(mean) + 5
    mon.check(shared_other <= limit, "pairs-equal-under-one-row-hash-share-other-rows-at-rate-1/width", shared_other_rows=shared_other, limit=limit, pairs=n_pairs, cfg=cfg)
    mon.count("constructed_collision_pairs", n_pairs)
    mon.count("constructed_pairs_sharing_the_targeted_row", shared_r)
    mon.seen("collide_family", fam)
    mon.nontrivial(shared_r > 0)


def gen_cases(ctx):
    rng = ctx.rng("cases")
    q = ctx.quick
    rep = 0
    while True:
        fams = ["linear", "log16", "log8", "hh"]
        for fi, fam in enumerate(fams):
            depths = [8] if (q and fam != "linear") else ([8, 2, 5] if q else [8, int(rng.integers(2, 8))])
            for d in depths:
                if fam == "hh":
                    d = min(d, 8)
                w = 16 if rep == 0 or q else pick(rng, [16, 7, 64])
                n = 20000 if w <= 16 else 60000
                yield {"type": "uniform", "family": fam, "width": w, "depth": d, "n_keys": n, "seed": int(rng.integers(0, 2**62))}
        # widths that are not powers of two (a mask-and-fold instead of a modulo is exact only for powers of two) and
        # depths that are not multiples of four (row-group kernels), rotating over the families
        for j, (w, d) in enumerate(((48, 3), (100, 5), (7, 6), (96, 7))):
            fam = fams[(j + rep) % 4]
            yield {"type": "uniform", "family": fam, "width": w, "depth": min(d, 8), "n_keys": 20000 if w < 64 else 40000, "seed": int(rng.integers(0, 2**62))}
        # long keys (length-gated hashing shortcuts start somewhere): 200-300, ~1000 and 4096+ bytes, rotating over the families
        for j, kl in enumerate(((200, 300), (1000, 1100), (4096, 4300), (8192, 8200))):
            fam = [f for f in fams if f != "hh"][(j + rep) % 3] if kl[1] > 255 else fams[(j + rep) % 4]
            yield {"type": "uniform", "family": fam, "width": 16, "depth": 8, "n_keys": 8000 if kl[1] < 2000 else 5000, "key_len": list(kl),
                   "seed": int(rng.integers(0, 2**62))}
        # deep tables: more rows than an 8-bit row counter can address
        for fam, d in (("linear", 260), ("log8", 256), ("log16", 300))[rep % 3: rep % 3 + (3 if q else 1)]:
            yield {"type": "uniform", "family": fam, "width": 4, "depth": d, "n_keys": 3000, "seed": int(rng.integers(0, 2**62))}
        # cell ownership read through every entry point that adds a key (each may hash for itself)
        for j, via in enumerate(("ulist", "udict", "ngram", "ndarray")):
            yield {"type": "uniform", "family": fams[(j + rep) % 3], "width": 16, "depth": 8, "n_keys": 20000, "via": via,
                   "key_len": [1, 8] if via == "ndarray" else [1, 24], "seed": int(rng.integers(0, 2**62))}
        if rep == 0:
            yield {"type": "uniform", "family": "linear", "width": 16, "depth": 8, "n_keys": 20000, "via": "ndarray", "key_len": [1, 8], "seed": int(rng.integers(0, 2**62))}
        for fam in fams:
            yield {"type": "collide", "family": fam, "width": 32, "depth": 8, "pairs": 12 if q else 40, "seed": int(rng.integers(0, 2**62))}
        for w in (32, 64, 128):
            yield {"type": "zipf", "width": w, "n_keys": 5000, "N": 200000, "seed": int(rng.integers(0, 2**62))}
        rep += 1
        if q:
            return


def run_case(case, ctx, mon):
    {"uniform": run_uniform, "zipf": run_zipf, "collide": run_collide}[case["type"]](case, ctx, mon)


def run(ctx, mon):
    run_cases(ctx, mon, gen_cases(ctx), run_case)


def replay(case, ctx, mon):
    run_case(case, ctx, mon)


def floors(mon, ctx):
    mon.floor("row pairs of a depth-8 linear sketch", len([x for x in mon.classes["row_pair"] if x.startswith("linear:")]), 28)
    mon.floor("families probed", len(mon.classes["family"]), 4)
    mon.floor("row pairs tested (incl. tables of 256+ rows)", mon.counters["row_pairs_tested"], 30000)
    mon.floor("entry points through which cell ownership was read (add, update(list), update(dict), add_ngram)", len(mon.classes["probed_via"] - {"ndarray"}), 4)
    mon.floor("key length classes probed for uniformity and independence", len(mon.classes["key_length_class"]), 4)
    mon.floor("families probed with constructed one-row collisions", len(mon.classes["collide_family"]), 4)
    mon.floor("constructed pairs that shared the targeted row", mon.counters["constructed_pairs_sharing_the_targeted_row"], 100)
    mon.floor("zipf widths", len(mon.classes["zipf_width"]), 3)
    mon.floor("zipf heavy keys", mon.counters["zipf_heavy_keys"], 3)
