"""C08 - parallel_add gives the sequential result for every worker count and schedule."""
from __future__ import annotations

import itertools
import os

import numpy as np

from .. import fakectx, par_common as P, state
from ..common import hx, key_family, pick, run_cases, shm_census, sk

ID = "C08"
LEVEL = "exploration"
TECHNIQUE = "schedule enumeration against the real worker / merge code under a steered synchronous process context (which worker gets which items in which order is the whole outcome space, workers share nothing else), judged by a sequential reference and the C01/C03/C04 oracles; plus real spawned runs checked by an exactly-once event log"
RULE = ("case (in-process) = (items with keys and record counts, n_workers, schedule = assignment of every item to a worker with per-worker "
        "order, sketch combination cms/hh/hll, list or generator); all schedules of <= 4 items on <= 3 workers are enumerated (thorough: "
        "<= 6 items on <= 4 workers, sharded), n_workers 1..9 with random schedules; case (spawned) = real parallel_add with n_workers in "
        "{1,2,3,5} and callbacks that sleep pseudo-randomly and log (pid, item); non-trivial = at least two workers received items, or "
        "an odd number of workers (carried sketch in pairwise merging); distinct = by case digest; also: 10..40 workers with an item each, "
        "reported core counts 1/2/3/4/64/host, HyperLogLog seeds crafted so that a key takes the maximum rank 64-p+1, items of every kind "
        "(dict, int incl. 0, bytes, str, tuple, generator); thorough: one real run with a 38 s consumer and one with a 54 s producer")
ASSUMPTIONS = ["in-process runs replace multiprocessing's spawn context by a synchronous one (helpers.get_context rebound from outside); pickling, real exit codes and OS scheduling are only seen by the spawned runs",
               "Linux, spawn start method, CPython 3.12"]
LEVEL_TEXT = ("The real parallel_add, _fill_queue, _worker, attach_shared_memory, parallel_merging and _merge_worker are executed for every "
              "schedule of the declared bound and for all seven sketch combinations; results must equal the sequential result (HLL register "
              "for register, bookkeeping sums, count-min and heavy-hitter bounds on the whole stream). Real spawned runs confirm process "
              "semantics and exactly-once delivery from an O_APPEND event log.")
LEVEL_NOTE = "exhaustive over schedules only within the in-process model; the model's assumption (workers share nothing but the queue) is read off helpers.py"
BUDGET = {"quick": 150, "thorough": 480}
SHARDS = {"quick": 1, "thorough": 16}
SHM_LEAK_IS_VIOLATION = True
WATCHDOG_FACTOR = 5


def make_case(rng, n_items, n_workers, combo, schedule, gen=False, cms_kind=None):
    keys = key_family(rng, 6, 0, 8)
    items = P.gen_items(rng, n_items, keys)
    return {"type": "inproc", "items": items, "n_workers": n_workers, "combo": list(combo), "args": P.gen_args(rng, combo, cms_kind, items=items),
            "schedule": {str(k): v for k, v in schedule.items()}, "as_generator": gen, "item_kind": pick(rng, P.ITEM_KINDS),
            "cores": pick(rng, [None, None, 1, 2, 3, 4, 64])}


def run_inproc_case(case, ctx, mon):
    combo = tuple(case["combo"])
    sched = {int(k): v for k, v in case["schedule"].items()}
    det = dict(n_workers=case["n_workers"], combo=list(combo), schedule=case["schedule"], generator=case["as_generator"])
    outcome, res, fctx = P.run_inproc(case["items"], sched, case["n_workers"], case["args"], as_generator=case["as_generator"],
                                      kind=case.get("item_kind", "dict"), cores=case.get("cores"))
    mon.seen("reported_cores", case.get("cores") or "host")
    if outcome == "hang":
        mon.check(False, "parallel_add-terminates", why=str(res), **det)
    if outcome == "raised":
        mon.check(False, "parallel_add-returns-for-well-behaved-callbacks", exc=f"{type(res).__name__}: {res}", child_errors=fctx.child_errors[:3], **det)
    served = sorted(i for _, i in fctx.item_queue.served)
    mon.check(served == list(range(len(case["items"]))), "every-item-handed-to-exactly-one-worker", served=served, n_items=len(case["items"]), **det)
    meta, sketches = P.extract(res, combo)
    mon.check(meta["order_ok"], "return-arity-and-order(cms,hh,hll)", got=meta["types"], want=list(combo), **det)
    P.check_result(mon, sketches, combo, case["args"], case["items"], det)
    mon.check(not [e for e in fctx.child_errors if "_fill_queue" not in e or case["items"]], "no-child-process-error", errors=fctx.child_errors[:3], **det)
    busy = sum(1 for w, v in sched.items() if v)
    mon.count("inproc_runs")
    mon.seen("combo", "+".join(combo))
    mon.seen("n_workers", case["n_workers"])
    mon.seen("item_kind", case.get("item_kind", "dict") + ("/generator" if case["as_generator"] else "/list"))
    if case["n_workers"] % 2 == 1 and case["n_workers"] > 1:
        mon.count("runs_with_odd_worker_count")
    if case["as_generator"]:
        mon.count("runs_with_generator_items")
    if "cms" in combo:
        mon.seen("cms_kind", case["args"]["cms_args"]["cms_type"])
    del sketches, res
    mon.nontrivial(busy >= 2 or case["n_workers"] % 2 == 1)


def run_spawned_case(case, ctx, mon):
    combo = tuple(case["combo"])
    out = P.run_spawned(case, timeout_s=case.get("timeout", 600))
    det = dict(n_workers=case["n_workers"], combo=list(combo), generator=case.get("as_generator", False), wall=round(out["wall"], 1))
    try:
        if out["timed_out"]:
            if out.get("progress", 1.0) < 0.05:
                mon.check(False, "parallel_add-terminates", progress_cpu_s=out.get("progress"), log=out["log_tail"][-400:], **det)
            mon.inconclusive.append(f"spawned run exceeded {case.get('timeout', 600)}s but was still consuming CPU")
            return
        r = out["result"]
        mon.check(r is not None and r.get("outcome") == "returned", "parallel_add-returns-for-well-behaved-callbacks",
                  outcome=(r or {}).get("outcome"), exc=(r or {}).get("exc"), log=out["log_tail"][-600:], **det)
        # offline check of the event log: every item started and finished exactly once
        starts = [i for _, i, ph in out["events"] if ph == "start"]
        dones = [i for _, i, ph in out["events"] if ph == "done"]
        n = len(case["items"])
        mon.check(sorted(starts) == list(range(n)) and sorted(dones) == list(range(n)), "event-log:every-item-processed-exactly-once",
                  starts=sorted(starts), dones=sorted(dones), **det)
        pids = sorted({p for p, _, _ in out["events"]})
        assignment = tuple(sorted((pids.index(p), i) for p, i, ph in out["events"] if ph == "start"))
        mon.seen("spawned_assignments", str(assignment))
        mon.check(len(pids) <= case["n_workers"], "no-more-worker-processes-than-n_workers", pids=len(pids), **det)
        s = sk()
        loaders = {"cms": s.countmin.load, "hh": s.HeavyHitters.load, "hll": s.HyperLogLog.load}
        sketches = {name: loaders[name](f) for name, f in zip(combo, r["files"])}
        want = {"cms": s.CountMinLinear, "hh": s.HeavyHitters, "hll": s.HyperLogLog}
        mon.check(len(r["types"]) == len(combo) and all(isinstance(sketches[n_], want[n_]) for n_ in combo), "return-arity-and-order(cms,hh,hll)",
                  got=r["types"], want=list(combo), **det)
        P.check_result(mon, sketches, combo, case["args"], case["items"], det)
        mon.count("spawned_runs_completed")
        if case.get("slow"):
            mon.count("spawned_runs_with_a_slow_consumer")
        mon.seen("spawned_n_workers", case["n_workers"])
        if case.get("as_generator"):
            mon.count("spawned_runs_with_generator")
        mon.nontrivial(len(pids) >= 2 or case["n_workers"] == 1)
    finally:
        P.cleanup_spawned(out)


def run_spawned_kill_case(case, ctx, mon):
    """A worker of a real run is killed (SIGKILL) half way through one item.  C08 speaks about what parallel_add RETURNS: if it returns
    at all after that, the result must still account for every item exactly once (the unchanged library raises instead, which C19
    requires and which leaves nothing for C08 to judge).  Round 8, seed C08-N: dead workers silently replaced."""
    combo = tuple(case["combo"])
    out = P.run_spawned(case, timeout_s=case.get("timeout", 600))
    det = dict(n_workers=case["n_workers"], combo=list(combo), wall=round(out["wall"], 1), killed_item=case["lethal"])
    try:
        if out["timed_out"]:
            mon.inconclusive.append("spawned run with a killed worker exceeded its budget")
            return
        r = out["result"]
        if r is None or r.get("outcome") != "returned":
            mon.count("killed_worker_runs_that_raised")
            mon.seen("killed_worker_exception", ((r or {}).get("exc") or "")[:60])
            mon.nontrivial(True)
            return
        mon.count("killed_worker_runs_that_returned")
        s = sk()
        loaders = {"cms": s.countmin.load, "hh": s.HeavyHitters.load, "hll": s.HyperLogLog.load}
        sketches = {name: loaders[name](f) for name, f in zip(combo, r["files"])}
        whole = [dict(it, mark=None) for it in case["items"]]  # every item, the one being processed at the kill included
        P.check_result(mon, sketches, combo, case["args"], whole, dict(det, after="a worker was killed and parallel_add returned all the same"))
        mon.nontrivial(True)
    finally:
        P.cleanup_spawned(out)


def gen_cases(ctx):
    rng = ctx.rng("cases")
    q = ctx.quick
    sh, ns = ctx.shard, ctx.nshards
    if q or sh in (1, 2):
        keys = key_family(rng, 8, 0, 8)
        nw = 1 if (q or sh == 1) else 2
        items = P.gen_items(rng, 6, keys, marks={3: "exit"}, sleep=False)
        items[3]["how"] = "sigkill"
        for it in items:
            it["keys"] = it["keys"] or [[hx(keys[0]), 2]]
            it["records"] = max(1, min(int(it["records"]), 3))
        yield {"type": "spawned_kill", "items": items, "n_workers": nw, "combo": ["cms", "hh", "hll"], "args": P.gen_args(rng, ("cms", "hh", "hll"), "linear"),
               "lethal": 3, "timeout": 600, "item_kind": "dict"}
    # --- real spawned runs first (they are the slow part; shard 0..k each take one)
    spawn_plan = [(2, ("cms", "hh", "hll"), False), (3, ("cms", "hll"), True)] if q else \
        [(1, ("cms", "hh", "hll"), False), (2, ("cms", "hh", "hll"), True), (3, ("cms", "hh", "hll"), False), (5, ("cms", "hh", "hll"), False),
         (2, ("hll",), False), (3, ("hh",), True), (2, ("cms",), False), (5, ("hh", "hll"), False)] * 2
    for j, (nw, combo, gen) in enumerate(spawn_plan):
        if q or j % ns == sh:
            keys = key_family(rng, 8, 0, 8)
            items = P.gen_items(rng, int(rng.integers(nw + 1, 2 * nw + 4)), keys, sleep=True)
            yield {"type": "spawned", "items": items, "n_workers": nw, "combo": list(combo), "args": P.gen_args(rng, combo, "linear", items=items),
                   "as_generator": gen, "timeout": 300 if q else 900, "item_kind": ["bytes", "int", "dict", "str", "tuple"][j % 5]}
    if not q and sh == ns - 1:
        # one slow consumer: a single worker sits on its first item for 38 s while the bounded queue (3 * n_workers) is full
        # and the fill process waits to place the remaining items - nothing may be given up on
        keys = key_family(rng, 8, 0, 8)
        items = P.gen_items(rng, 9, keys, sleep=False)
        items[0]["sleep_ms"] = 38000
        yield {"type": "spawned", "items": items, "n_workers": 1, "combo": ["cms", "hll"], "args": P.gen_args(rng, ("cms", "hll"), "linear"),
               "as_generator": False, "timeout": 900, "item_kind": "dict", "slow": True}
    if not q and sh == ns - 2:
        # one slow producer: three items that each take 18 s to unpickle - the fill process needs 54 s before it delivers the
        # first one, and both workers sit idle on an empty queue all that time; nothing may be given up on
        keys = key_family(rng, 8, 0, 8)
        items = P.gen_items(rng, 3, keys, sleep=False)
        yield {"type": "spawned", "items": items, "n_workers": 2, "combo": ["cms", "hh", "hll"], "args": P.gen_args(rng, ("cms", "hh", "hll"), "linear"),
               "as_generator": False, "timeout": 900, "item_kind": "slow:18", "slow_producer": True}

    def random_runs(n_rand, j0=0):
        # all seven combinations, worker counts 1..9, random schedules, list and generator
        for j in range(j0, j0 + n_rand):
            combo = P.COMBOS[j % 7]
            nw = 1 + (j // 7) % 9
            if j % 29 == 28:
                # many workers: more merge pairs in a round than cores, several odd rounds, counts such as 6, 10..20, 34+
                nw = [10, 11, 12, 14, 17, 18, 19, 20, 33, 34, 40][(j // 29) % 11]
            n_items = int(rng.integers(0 if j % 50 == 49 else 1, 9))
            sched = {w: [] for w in range(nw)}
            if nw >= 10:
                # every worker gets at least one item, so a sketch that the merge tree drops or doubles always shows
                n_items = nw + int(rng.integers(0, 4))
                for i in range(nw):
                    sched[i].append(i)
                order = list(range(nw, n_items))
            else:
                order = rng.permutation(n_items).tolist()
            for i in order:
                sched[int(rng.integers(0, nw))].append(i)
            yield make_case(rng, n_items, nw, combo, sched, gen=bool(rng.random() < 0.3))

    def exhaustive(n_items, n_workers):
        scheds = fakectx.all_schedules(n_items, n_workers)
        if not q:
            scheds = itertools.islice(scheds, sh, None, ns)
        base_rng = ctx.rng("exh", n_items, n_workers)
        keys = key_family(base_rng, 6, 0, 8)
        items = P.gen_items(base_rng, n_items, keys)
        args = P.gen_args(base_rng, COMBO_ALL, "linear")
        for k, sched in enumerate(scheds):
            yield {"type": "inproc", "items": items, "n_workers": n_workers, "combo": list(COMBO_ALL), "args": args,
                   "schedule": {str(w): v for w, v in sched.items()}, "as_generator": bool(k % 7 == 3), "exhaustive": [n_items, n_workers],
                   "item_kind": P.ITEM_KINDS[k % len(P.ITEM_KINDS)]}

    if q:
        yield from exhaustive(3, 2)
        yield from exhaustive(4, 3)
        yield from random_runs(320)
        return
    # thorough: breadth first (every combination and worker count on every shard), then the exhaustive bounds as time permits
    yield from random_runs(189)
    yield from exhaustive(4, 3)
    yield from exhaustive(5, 3)
    yield from exhaustive(6, 4)
    yield from random_runs(10**9, 189)


COMBO_ALL = ("cms", "hh", "hll")


def run_case(case, ctx, mon):
    if case["type"] == "inproc":
        run_inproc_case(case, ctx, mon)
        if "exhaustive" in case:
            mon.count(f"exhaustive_schedules:{case['exhaustive'][0]}x{case['exhaustive'][1]}")
    elif case["type"] == "spawned_kill":
        run_spawned_kill_case(case, ctx, mon)
    else:
        run_spawned_case(case, ctx, mon)


def run(ctx, mon):
    state.fast_del(True)
    run_cases(ctx, mon, gen_cases(ctx), run_case)
    mon.extra(exhaustive=False, exhaustive_part="all assignments+orders of 3 items/2 workers and 4 items/3 workers (quick); 4/3, 5/3, 6/4 sharded (thorough)")


def replay(case, ctx, mon):
    state.fast_del(True)
    run_case(case, ctx, mon)


def floors(mon, ctx):
    if ctx.quick:
        mon.floor("exhaustive schedules 4 items x 3 workers", mon.counters["exhaustive_schedules:4x3"], 360)
        mon.floor("exhaustive schedules 3 items x 2 workers", mon.counters["exhaustive_schedules:3x2"], 24)
    else:
        mon.floor("exhaustive schedules 4 items x 3 workers", mon.counters["exhaustive_schedules:4x3"], 360)
    mon.floor("sketch combinations", len(mon.classes["combo"]), 7)
    mon.floor("worker counts", len(mon.classes["n_workers"]), 9)
    mon.floor("core counts reported to the library (host, 1, 2, 3, 4, 64)", len(mon.classes["reported_cores"]), 5)
    mon.floor("parallel_add results holding a register of the maximum rank 64-p+1", mon.counters["hll_results_holding_a_maximum_rank_register"], 20)
    mon.floor("runs with 10..40 workers", len([x for x in mon.classes["n_workers"] if x >= 10]), 5)
    mon.floor("runs with an odd worker count", mon.counters["runs_with_odd_worker_count"], 10)
    mon.floor("runs with generator items", mon.counters["runs_with_generator_items"], 10)
    mon.floor("item kinds x (list, generator)", len(mon.classes["item_kind"]), 8)
    mon.floor("real spawned runs completed", mon.counters["spawned_runs_completed"], 1)
    if ctx.thorough:
        mon.floor("distinct item->worker assignments seen in spawned runs", len(mon.classes["spawned_assignments"]), 2)
