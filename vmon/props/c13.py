"""C13 - HeavyHitters.query(k, threshold) is the exact, fresh top-k of the sketch's stored counts."""
from __future__ import annotations

from .. import hh_common as H
from .. import state
from ..common import CAP, hx, pick, run_cases

ID = "C13"
LEVEL = "exploration"
TECHNIQUE = "trace-specification monitor: every query(k, threshold) answer in histories interleaving add/merge/save+load/query is re-derived from the sketch's other accessor hh[.], from the unbounded answer, and from a freshly loaded copy (freshness oracle); cache-hit and cache-miss paths are counted"
RULE = ("case = history of add/update/ngram/merge/save+load events on up to 4 sketches with query(k, threshold) calls interleaved "
        "(thresholds None/0/1/small/2^32-1, k in {1,2,3,10^9}, repeated with unchanged and changed thresholds); non-trivial = the case "
        "contains a query answered from the cache and one that had to rebuild it, on a sketch where identities share a cell; distinct = by "
        "case digest")
ASSUMPTIONS = ["the private fields n_added_sort/threshold_sort are read only to label a query as cache hit or miss for the coverage counters, never asserted",
               "widths 1..8, max_key_len <= 16"]
LEVEL_TEXT = ("Each of the five clauses of the statement plus equality with a freshly loaded copy is evaluated on every query of "
              "thousands of random histories; both the cached and the rebuilding path are exercised after adds, merges, loads and "
              "threshold changes.")
LEVEL_NOTE = "specification recomputed through __getitem__ and load(save()); ties in count may be ordered arbitrarily (only count sequences are compared)"
BUDGET = {"quick": 75, "thorough": 360}
SHARDS = {"quick": 1, "thorough": 16}
BOUNDSCHECK = True


def check_query(run, i, ev, why):
    mon = run.mon
    s = run.real[i]
    _, _, k, t = ev
    n_added = int(s.n_added())
    eff = int(float(s.phi) * n_added) if t is None else int(t)
    # label the path (coverage only)
    try:
        import numpy as np

        thr_obj = np.uint64(eff)
        hit = not (s.n_added_sort < s.n_added() or s.threshold_sort != thr_obj)
    except Exception:  # noqa: BLE001
        hit = None
    res = mon.api(s.query, k, t)
    det = dict(k=k, threshold=t, effective_threshold=eff, answer=H.hh_pairs(res)[:8], cfg=run.cfg, after=why)
    keys = [bytes(a) for a, _ in res]
    counts = [int(c) for _, c in res]
    mon.check(len(res) <= k, "at-most-k-pairs", **det)
    mon.check(len(set(keys)) == len(keys), "distinct-keys", **det)
    mon.check(all(counts[j] >= counts[j + 1] for j in range(len(counts) - 1)), "non-increasing-counts", **det)
    for key, c in zip(keys, counts):
        mon.check(c == int(s[key]), "count==hh[key]", key=hx(key), **det)
        mon.check(c >= eff, "count>=threshold", key=hx(key), **det)
    full = mon.api(s.query, 10**9, t)
    fcounts = [int(c) for _, c in full]
    mon.check(counts == fcounts[: min(k, len(fcounts))], "counts-are-first-k-of-unbounded-answer", unbounded=H.hh_pairs(full)[:8], **det)
    fkeys = {bytes(a) for a, _ in full}
    for key in run.ghost[i]:
        if int(s[key]) >= max(eff, 1):
            mon.check(key in fkeys, "every-added-key-above-threshold-appears", key=hx(key), stored=int(s[key]), unbounded=H.hh_pairs(full)[:8], **det)
    # freshness oracle: a freshly loaded copy answers the same (k, t) with the same multiset of pairs / counts
    fresh = state.save_load(s, "hh", False, False)
    fres = fresh.query(k, t)
    mon.check([int(c) for _, c in fres] == counts and (sorted(map(bytes, (a for a, _ in fres))) == sorted(keys) or len(set(counts)) < len(counts)),
              "answer==answer-of-freshly-loaded-copy", fresh=H.hh_pairs(fres)[:8], **det)
    ffull = fresh.query(10**9, t)
    mon.check(sorted((bytes(a), int(c)) for a, c in ffull) == sorted((bytes(a), int(c)) for a, c in full),
              "unbounded-answer==unbounded-answer-of-freshly-loaded-copy", fresh=H.hh_pairs(ffull)[:8], **det)
    mon.count("queries")
    if hit is True:
        mon.count("queries_cache_hit")
        run.saw_hit = True
    elif hit is False:
        mon.count("queries_cache_miss")
        run.saw_miss = True
    mon.count("queries_after_" + why)
    mon.seen("threshold_kind", "None" if t is None else ("cap" if t == CAP else ("0" if t == 0 else ("1" if t == 1 else "small"))))
    mon.seen("k", k)


def on_query(run, i, ev):
    check_query(run, i, ev, run.last_kind.get(i, "start"))
    # ask again unchanged (cache hit path) and with a changed threshold
    check_query(run, i, ev, "repeat")
    run.last_kind[i] = "query"


def hook(run, i, ev):
    run.last_kind[i] = "merge" if ev[0] == "merge" else ("load" if ev[0] == "saveload" else "add")


def run_case(case, ctx, mon):
    r = H.Run(case, mon, hook, on_query)
    r.last_kind = {}
    r.saw_hit = r.saw_miss = False
    r.go()
    mon.nontrivial(r.saw_hit and r.saw_miss and r.shared)


def gen_cases(ctx):
    rng = ctx.rng("cases")
    n = 400 if ctx.quick else 10**9
    for _ in range(n):
        yield H.gen_history_case(rng, ctx, big=0.08, n_ev=(4, 30), max_width=8, queries=True)


def run(ctx, mon):
    state.fast_del(True)
    run_cases(ctx, mon, gen_cases(ctx), run_case)


def replay(case, ctx, mon):
    state.fast_del(True)
    run_case(case, ctx, mon)


def floors(mon, ctx):
    mon.floor("queries on the cache-hit path", mon.counters["queries_cache_hit"], 50)
    mon.floor("queries on the cache-miss path", mon.counters["queries_cache_miss"], 50)
    mon.floor("queries right after a merge", mon.counters["queries_after_merge"], 20)
    mon.floor("queries right after a load", mon.counters["queries_after_load"], 10)
    mon.floor("threshold kinds", len(mon.classes["threshold_kind"]), 5)
