"""C13 - HeavyHitters.query(k, threshold) is the exact, fresh top-k of the sketch's stored counts."""
from __future__ import annotations

from .. import hh_common as H
from .. import state
from ..common import CAP, hx, pick, run_cases

ID = "C13"
LEVEL = "exploration"
TECHNIQUE = "trace-specification monitor: every query(k, threshold) answer in histories interleaving add/merge/save+load/query is re-derived from the sketch's other accessor hh[.], from the unbounded answer, and from a freshly loaded copy (freshness oracle); cache-hit and cache-miss paths are counted"
RULE = ("case = history of add/update/ngram/merge/save+load events on up to 4 sketches with query(k, threshold) calls interleaved "
        "(thresholds None/0/1/small/2^32-1/2^32/2^40/2^63/2^64-1, k in {1,2,3,10^9}, repeated with unchanged and changed thresholds); non-trivial = the case "
        "contains a query answered from the cache and one that had to rebuild it, on a sketch where identities share a cell; distinct = by "
        "case digest; also k = 0, sketches with 3000-5000 candidates (k in {0,1,2047,2500,10^9}), a third of the queries asked under a "
        "RuntimeWarning-as-error filter and repeated leniently if that raised, runs of 70 self-merges (bookkeeping wraps at 2^64)")
ASSUMPTIONS = ["the private fields n_added_sort/threshold_sort are read only to label a query as cache hit or miss for the coverage counters, never asserted",
               "widths 1..8, max_key_len <= 16"]
LEVEL_TEXT = ("Each of the five clauses of the statement plus equality with a freshly loaded copy is evaluated on every query of "
              "thousands of random histories; both the cached and the rebuilding path are exercised after adds, merges, loads and "
              "threshold changes.")
LEVEL_NOTE = "specification recomputed through __getitem__ and load(save()); ties in count may be ordered arbitrarily (only count sequences are compared)"
BUDGET = {"quick": 75, "thorough": 360}
SHARDS = {"quick": 1, "thorough": 16}
BOUNDSCHECK = True


def check_query(run, i, ev, why):
    mon = run.mon
    s = run.real[i]
    _, _, k, t = ev
    n_added = int(s.n_added())
    eff = int(float(s.phi) * n_added) if t is None else int(t)
    # label the path (coverage only)
    try:
        import numpy as np

        thr_obj = np.uint64(eff)
        hit = not (s.n_added_sort is None or s.n_added_sort != s.n_added() or s.threshold_sort != thr_obj)
    except Exception:  # noqa: BLE001
        hit = None
    if (k + n_added) % 3 == 1:
        # a caller that runs with RuntimeWarnings turned into errors (python -W error::RuntimeWarning, pytest's filterwarnings):
        # if the library warns inside query() the call fails for that caller - who catches it and asks again, now leniently;
        # the second answer is held to the same specification as any other
        import warnings

        try:
            with warnings.catch_warnings():
                warnings.simplefilter("error", RuntimeWarning)
                res = s.query(k, t)
        except RuntimeWarning:
            mon.count("queries_repeated_after_a_RuntimeWarning_was_raised")
            res = mon.api(s.query, k, t)
        mon.count("queries_under_a_warnings_as_errors_filter")
    else:
        res = mon.api(s.query, k, t)
    det = dict(k=k, threshold=t, effective_threshold=eff, answer=H.hh_pairs(res)[:8], cfg=run.cfg, after=why)
    keys = [bytes(a) for a, _ in res]
    counts = [int(c) for _, c in res]
    mon.check(len(res) <= k, "at-most-k-pairs", **det)
    mon.check(len(set(keys)) == len(keys), "distinct-keys", **det)
    mon.check(all(counts[j] >= counts[j + 1] for j in range(len(counts) - 1)), "non-increasing-counts", **det)
    for key, c in zip(keys, counts):
        mon.check(c == int(s[key]), "count==hh[key]", key=hx(key), **det)
        mon.check(c >= eff, "count>=threshold", key=hx(key), **det)
    full = mon.api(s.query, 10**9, t)
    fcounts = [int(c) for _, c in full]
    mon.check(counts == fcounts[: min(k, len(fcounts))], "counts-are-first-k-of-unbounded-answer", unbounded=H.hh_pairs(full)[:8], **det)
    fkeys = {bytes(a) for a, _ in full}
    for key in run.ghost[i]:
        if int(s[key]) >= max(eff, 1):
            mon.check(key in fkeys, "every-added-key-above-threshold-appears", key=hx(key), stored=int(s[key]), unbounded=H.hh_pairs(full)[:8], **det)
    # freshness oracle: a freshly loaded copy answers the same (k, t) with the same multiset of pairs / counts
    fresh = state.save_load(s, "hh", False, False)
    fres = fresh.query(k, t)
    mon.check([int(c) for _, c in fres] == counts and (sorted(map(bytes, (a for a, _ in fres))) == sorted(keys) or len(set(counts)) < len(counts)),
              "answer==answer-of-freshly-loaded-copy", fresh=H.hh_pairs(fres)[:8], **det)
    # the loaded copy must also answer a *default-threshold* query per the specification (whatever was asked before save)
    dres = fresh.query(10**9)
    deff = int(float(fresh.phi) * int(fresh.n_added()))
    dkeys = {bytes(a): int(c) for a, c in dres}
    for key, c in dkeys.items():
        mon.check(c == int(fresh[key]) and c >= deff, "loaded-copy:default-query-pairs-meet-the-specification", key=hx(key), count=c, stored=int(fresh[key]),
                  default_threshold=deff, asked_before_save=[k, t], cfg=run.cfg)
    for key in run.ghost[i]:
        if int(fresh[key]) >= max(deff, 1):
            mon.check(key in dkeys, "loaded-copy:default-query-contains-every-key-above-threshold", key=hx(key), stored=int(fresh[key]), default_threshold=deff,
                      asked_before_save=[k, t], answer=H.hh_pairs(dres)[:8], cfg=run.cfg)
    ffull = fresh.query(10**9, t)
    mon.check(sorted((bytes(a), int(c)) for a, c in ffull) == sorted((bytes(a), int(c)) for a, c in full),
              "unbounded-answer==unbounded-answer-of-freshly-loaded-copy", fresh=H.hh_pairs(ffull)[:8], **det)
    # the returned list belongs to the caller: mutating it must not change later answers
    snapshot_counts = list(counts)
    try:
        res.reverse()
        if res:
            res.pop()
        res.append((b"\xfe-intruder", 2**31))
    except Exception:  # noqa: BLE001  (an immutable return value is fine too)
        pass
    again = mon.api(s.query, k, t)
    mon.check([int(c) for _, c in again] == snapshot_counts and not any(bytes(a) == b"\xfe-intruder" for a, _ in again),
              "answer-unaffected-by-caller-mutating-an-earlier-result", first=snapshot_counts[:8], again=H.hh_pairs(again)[:8], k=k, threshold=t, cfg=run.cfg)
    mon.count("queries")
    if hit is True:
        mon.count("queries_cache_hit")
        run.saw_hit = True
    elif hit is False:
        mon.count("queries_cache_miss")
        run.saw_miss = True
    mon.count("queries_after_" + why)
    mon.seen("threshold_kind", "None" if t is None else ("above-cap" if t > CAP else "cap" if t == CAP else ("0" if t == 0 else ("1" if t == 1 else "small"))))
    mon.seen("k", k)


def on_query(run, i, ev):
    run.last_query[i] = (ev[2], ev[3])
    run.changes_since_query[i] = 0
    check_query(run, i, ev, run.last_kind.get(i, "start"))
    # ask again unchanged (cache hit path) and with a changed threshold
    check_query(run, i, ev, "repeat")
    run.last_kind[i] = "query"


def hook(run, i, ev):
    if ev[0] == "untouched-sketch-after":
        return
    run.last_kind[i] = "merge" if ev[0] == "merge" else ("load" if ev[0] == "saveload" else "add")
    lq = run.last_query.get(i)
    run.changes_since_query[i] = run.changes_since_query.get(i, 0) + 1
    if lq is not None and run.changes_since_query[i] % 3 == 1:
        # the sketch changed since its last query and is saved WITHOUT being asked again: the loaded copy must answer the
        # earlier question from the current contents (a persisted candidate set would be stale here)
        mon = run.mon
        s = run.real[i]
        k, t = lq
        fresh = state.save_load(s, "hh", False, False)
        res = fresh.query(k, t)
        eff = int(float(fresh.phi) * int(fresh.n_added())) if t is None else int(t)
        counts = [int(c) for _, c in res]
        ok = all(int(c) == int(fresh[bytes(a)]) and int(c) >= eff for a, c in res) and counts == sorted(counts, reverse=True)
        full = {bytes(a) for a, _ in fresh.query(10**9, t)}
        missing = [hx(key) for key in run.ghost[i] if int(fresh[key]) >= max(eff, 1) and key not in full]
        mon.check(ok and not missing, "copy-loaded-after-an-unqueried-change-answers-from-current-contents", k=k, threshold=t, answer=H.hh_pairs(res)[:8],
                  missing=missing[:5], cfg=run.cfg)
        mon.count("loads_after_unqueried_change")


def run_case(case, ctx, mon):
    if case["type"] == "midscan":
        return run_midscan(case, ctx, mon)
    if case["type"] == "big":
        return run_big(case, ctx, mon)
    r = H.Run(case, mon, hook, on_query)
    r.last_kind = {}
    r.last_query = {}
    r.changes_since_query = {}
    r.saw_hit = r.saw_miss = False
    r.go()
    if case.get("boundary"):
        mon.count("default_threshold_boundary_cases")
        mon.seen("boundary_width", case["cfg"]["width"])
    mon.nontrivial((r.saw_hit and r.saw_miss and r.shared) or bool(case.get("boundary")))


def gen_boundary(rng, ctx):
    """Default threshold floor(phi * n_added()) at its rounding boundary: widths whose reciprocal is inexact in binary
    (49, 98, 103, ...) with n_added a multiple of the width, and a light key stored with exactly that count."""
    ws = [49, 98, 103, 107, 161, 3, 7, 10] + [int(x) for x in rng.integers(2, 200, 12 if ctx.quick else 60)]
    for w in ws:
        for m in (1, 2, 3, int(rng.integers(4, 9))):
            n = m * w
            for c in sorted({int(float(1.0 / w) * n), n // w, n // w - 1}):
                if c < 1 or n - c < 1:
                    continue
                yield {"type": "history", "cfg": {"kind": "hh", "width": w, "depth": 1, "max_key_len": 8}, "n": 1, "boundary": True,
                       "events": [[0, ["add", "48454156592d31", n - c]], [0, ["add", hx(bytes(rng.integers(1, 255, 5, dtype="uint8"))), c]],
                                  ["q", 0, 10**9, None], ["q", 0, 3, None]]}


def run_midscan(case, ctx, mon):
    """An add lands *inside* a query (through another handle on the same shared block, as a parallel_add worker could):
    the add is injected from a line-trace callback while generate_candidate_set scans.  Once quiescent, the next query
    with the same threshold must reflect the current contents."""
    import sys

    from ..common import sk, unhx

    cfg = case["cfg"]
    owner = state.make(cfg, shared_memory=True)
    s = sk()
    view = s.helpers.attach_shared_memory("hh", owner.args, owner.shm.name)
    for k, v in case["history"]:
        owner.add(unhx(k), v)
    code = getattr(type(owner).generate_candidate_set, "__code__", None)
    k, t = case["k"], case["t"]
    # dry run on a twin to learn how many line events one scan produces
    twin = state.make(cfg)
    for kk, v in case["history"]:
        twin.add(unhx(kk), v)
    counter = {"n": 0, "armed": False, "at": None, "done": False}

    def local(frame, event, arg):
        if event == "line":
            counter["n"] += 1
            if counter["armed"] and not counter["done"] and counter["n"] >= counter["at"]:
                counter["done"] = True
                view.add(unhx(case["inject"][0]), case["inject"][1])
        return local

    def tracer(frame, event, arg):
        return local if frame.f_code is code else None

    sys.settrace(tracer)
    try:
        twin.query(k, t)
    finally:
        sys.settrace(None)
    total = counter["n"]
    if total < 4:
        mon.count("midscan_not_injectable")
        return
    counter.update(n=0, armed=True, at=max(2, int(case["frac"] * total)))
    sys.settrace(tracer)
    try:
        mon.api(owner.query, k, t)
    finally:
        sys.settrace(None)
    mon.check(counter["done"], "harness:mid-scan-add-was-injected", total_line_events=total, at=counter["at"])
    # quiescent now: the same question again must describe the current contents
    res = mon.api(owner.query, k, t)
    eff = int(float(owner.phi) * int(owner.n_added())) if t is None else int(t)
    det = dict(k=k, threshold=t, effective_threshold=eff, answer=H.hh_pairs(res)[:8], cfg=cfg, injected=case["inject"], at_line_event=counter["at"], of=total)
    for key, c in res:
        mon.check(int(c) == int(owner[bytes(key)]), "after-mid-scan-add:count==hh[key]", key=hx(key), stored=int(owner[bytes(key)]), **det)
    fresh = state.save_load(owner, "hh", False, False)
    fres = fresh.query(k, t)
    mon.check([int(c) for _, c in fres] == [int(c) for _, c in res], "after-mid-scan-add:answer==answer-of-freshly-loaded-copy", fresh=H.hh_pairs(fres)[:8], **det)
    mon.count("midscan_injections")
    del view, owner
    mon.nontrivial(True)


def gen_midscan(rng, ctx):
    for _ in range(40 if ctx.quick else 400):
        w = int(rng.integers(2, 9))
        cfg = {"kind": "hh", "width": w, "depth": int(rng.integers(1, 4)), "max_key_len": 8}
        keys = [bytes(rng.integers(1, 255, int(rng.integers(1, 6)), dtype="uint8")) for _ in range(6)]
        hist = [[hx(keys[int(rng.integers(0, 6))]), int(rng.integers(1, 40))] for _ in range(int(rng.integers(3, 12)))]
        yield {"type": "midscan", "cfg": cfg, "history": hist, "k": pick(rng, [10**9, 3]), "t": pick(rng, [None, 0, 1, 2]),
               "inject": [hx(keys[int(rng.integers(0, 6))]), int(rng.integers(50, 2000))], "frac": float(rng.uniform(0.15, 0.95))}


def run_big(case, ctx, mon):
    """Thousands of candidates (sorting / selection shortcuts for big candidate sets start somewhere), every k incl. 0."""
    import numpy as np

    cfg = case["cfg"]
    rng = np.random.default_rng(case["seed"])
    s = state.make(cfg)
    keys = list({bytes(rng.integers(0, 256, int(rng.integers(1, 9)), dtype=np.uint8)) for _ in range(case["n_keys"])})
    for key in keys:
        s.add(key, int(rng.integers(1, 50)) if rng.random() < 0.9 else int(rng.integers(50, 10**6)))

    class R:
        pass

    run = R()
    run.mon, run.real, run.cfg, run.ghost, run.saw_hit, run.saw_miss = mon, [s], cfg, [set(keys)], False, False
    for k in case["ks"]:
        for t in case["ts"]:
            check_query(run, 0, ["q", 0, k, t], "add")
    mon.count("big_candidate_set_cases")
    mon._extra["largest_candidate_set"] = max(mon._extra.get("largest_candidate_set", 0), len(s.query(10**9, 0)))
    mon.nontrivial(True)


def gen_cases(ctx):
    rng = ctx.rng("cases")
    if ctx.quick or ctx.shard % 4 == 1:
        for w, n_keys in ((8192, 3000), (3000, 5000)):
            yield {"type": "big", "cfg": {"kind": "hh", "width": w, "depth": 2, "max_key_len": 8}, "n_keys": n_keys, "seed": int(rng.integers(0, 2**31)),
                   "ks": [0, 1, 2047, 2500, 10**9], "ts": [1, None]}
        # more than 65536 counters, not a multiple of 65536 (blocked scans have a tail): every stored key must be found
        for w, d in ((70001, 1), (40000, 2)):
            yield {"type": "big", "cfg": {"kind": "hh", "width": w, "depth": d, "max_key_len": 8}, "n_keys": 2500, "seed": int(rng.integers(0, 2**31)),
                   "ks": [10**9, 3], "ts": [1]}
    if ctx.quick or ctx.shard % 4 == 0:
        yield from gen_boundary(rng, ctx)
        yield from gen_midscan(rng, ctx)
    n = 300 if ctx.quick else 10**9
    for _ in range(n):
        yield H.gen_history_case(rng, ctx, big=0.08, n_ev=(4, 30), max_width=8, queries=True)


def run(ctx, mon):
    state.fast_del(True)
    run_cases(ctx, mon, gen_cases(ctx), run_case)


def replay(case, ctx, mon):
    state.fast_del(True)
    run_case(case, ctx, mon)


def floors(mon, ctx):
    mon.floor("cases with more than 2048 candidates", mon.counters["big_candidate_set_cases"], 4)
    mon.floor("queries with k == 0", int(0 in mon.classes["k"]), 1)
    mon.floor("queries on the cache-hit path", mon.counters["queries_cache_hit"], 50)
    mon.floor("queries on the cache-miss path", mon.counters["queries_cache_miss"], 50)
    mon.floor("queries right after a merge", mon.counters["queries_after_merge"], 20)
    mon.floor("queries right after a load", mon.counters["queries_after_load"], 10)
    mon.floor("threshold kinds", len(mon.classes["threshold_kind"]), 6)
    mon.floor("default-threshold boundary cases", mon.counters["default_threshold_boundary_cases"], 40)
