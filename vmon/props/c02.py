"""C02 - HyperLogLog state depends only on the set of distinct keys (union semantics)."""
from __future__ import annotations

import itertools

import numpy as np

from .. import ops, state
from ..common import pick, hx, key_family, rand_key, run_cases, sk, unhx
from ..refs import hashes_ref, hll_ref

ID = "C02"
LEVEL = "exploration"
TECHNIQUE = "lock-step reference model (registers recomputed from the ghost key set with an independent FastHash64 + rank) evaluated after every event, plus fresh-sketch differential at quiescent points; exhaustive permutations/partitions of small key sets; crafted seeds reaching every rank; thread stress with long kernel calls (8 threads pushing 30 kB documents into one sketch, and threads filling their own sketches, compared with sequentially built sketches)"
RULE = ("case = (p, seed, number of sketches, event list) where events are add/update/add_ngram/update_ngram on one of up to 5 "
        "sketches or merge(dst, src) (incl. repeated and self merges), followed by a random merge tree; or an exhaustive "
        "enumeration of all orderings and 2-way partitions of a small key set; or a crafted (key, seed) pair that drives the "
        "64-bit hash to a chosen register index and rank; non-trivial = history with a duplicate key and a merge, an "
        "exhaustive enumeration, or a crafted rank >= 20; distinct = by case digest")
ASSUMPTIONS = ["multiplicity arguments and dict values are >= 1 in the generated workloads (whether a multiplicity of 0 'adds' a key is left open by the statement)",
               "key sets up to a few thousand keys per history (reference hash is pure Python)"]
LEVEL_TEXT = ("After every event of randomly generated and exhaustively enumerated histories the real registers are compared bit for "
              "bit with an independent model of the statement (max over keys of rank, index from the low p bits), and at the end with "
              "a fresh real sketch fed each distinct key once (registers and query() bit-identical). All p in 7..16, full-range "
              "seeds, every rank 1..64-p+1 reached through crafted seeds.")
LEVEL_NOTE = "trusted: vmon/refs/hashes_ref.fasthash64 (validated by C11 against the real hash and published vectors)"
BUDGET = {"quick": 60, "thorough": 300}
SHARDS = {"quick": 1, "thorough": 16}
BOUNDSCHECK = True
SEEDS = [0, 1, 2**32 - 1, 2**32, 2**63, 2**64 - 1]


class Model:
    """Reference registers + ghost key set of one sketch."""

    def __init__(self, p, seed):
        self.p, self.seed = p, seed
        self.reg = np.zeros(1 << p, np.uint8)
        self.keys = set()

    def add(self, key, mon=None):
        h = hashes_ref.fasthash64(key, self.seed)
        idx, rank = hll_ref.rank_and_index(h, self.p)
        if mon is not None:
            mon.seen("rank_branch", _branch(h >> self.p))
            if rank == 64 - self.p + 1:
                mon.seen("max_rank_at_p", self.p)
        if rank > self.reg[idx]:
            self.reg[idx] = rank
        self.keys.add(key)

    def merge(self, other):
        np.maximum(self.reg, other.reg, out=self.reg)
        self.keys |= other.keys


def _branch(bits):
    """Which early-exit class of a binary-search leading-zero count the value falls in."""
    bl = bits.bit_length()
    if bl == 0:
        return "zero"
    if bl == 1:
        return "one"
    for lim, name in ((2, "2"), (4, "3-4"), (8, "5-8"), (16, "9-16"), (32, "17-32")):
        if bl <= lim:
            return name
    return "33+"


def gen_history(rng, ctx):
    p = int(rng.integers(7, 17))
    r = rng.random()
    seed = int(SEEDS[int(rng.integers(0, len(SEEDS)))]) if r < 0.5 else int(rng.integers(0, 2**64, dtype=np.uint64))
    n_sk = int(rng.integers(1, 6))
    keys = key_family(rng, int(rng.integers(2, 30)), 0, 24)
    n_ev = int(rng.integers(4, 40))
    events = []
    for _ in range(n_ev):
        r0 = rng.random()
        if r0 > 0.95:
            if rng.random() < 0.5:
                events.append(["copy", int(rng.integers(0, n_sk)), pick(rng, ["deepcopy", "pickle", "copy", "shallow"])])
            else:
                nk = int(rng.integers(3, 6))  # equal-sized chunks: the temporaries perform the same number of calls
                events.append(["tmpmerge", int(rng.integers(0, n_sk)), [["ulist", [hx(rand_key(rng, 1, 9)) for _ in range(nk)]]]])
                events.append(["tmpmerge", events[-1][1], [["ulist", [hx(rand_key(rng, 1, 9)) for _ in range(nk)]]]])
        elif n_sk > 1 and r0 < 0.15:
            a, b = int(rng.integers(0, n_sk)), int(rng.integers(0, n_sk))
            events.append(["merge", a, b] + (["q"] if rng.random() < 0.4 else []))
        else:
            ev = [int(rng.integers(0, n_sk)), ops.gen_op(rng, keys, max_value=10**6, zero=0.0, big=0.05)]
            if rng.random() < 0.4:
                ev.append("q")  # read query() right after this operation (and therefore also before the next one)
            events.append(ev)
    # final merge tree: random pairing until one is left; sometimes re-merge an already merged operand
    alive = list(range(n_sk))
    while len(alive) > 1:
        i, j = (int(x) for x in rng.choice(len(alive), 2, replace=False))
        a, b = alive[i], alive[j]
        events.append(["merge", a, b])
        if rng.random() < 0.2:
            events.append(["merge", a, b])  # idempotence
        alive.remove(b)
    return {"type": "history", "p": p, "seed": seed, "n": n_sk, "events": events, "final": alive[0]}


def run_history(case, ctx, mon):
    s = sk()
    p, seed, n = case["p"], case["seed"], case["n"]
    real = [state.maybe_relayout(s.HyperLogLog(p, seed)) for _ in range(n)]
    model = [Model(p, seed) for _ in range(n)]
    n_dups = 0
    n_merges = 0
    for ev in case["events"]:
        if ev[0] == "merge":
            a, b = ev[1], ev[2]
            before_b = np.array(real[b].registers, copy=True)
            mon.api(real[a].merge, real[b])
            model[a].merge(model[b])
            n_merges += 1
            mon.count("merges")
            if a != b:
                mon.check(np.array_equal(real[b].registers, before_b), "merge-leaves-other-unchanged", ev=ev)
        elif ev[0] == "copy":
            a = ev[1]
            real[a] = mon.api(state.duplicate, real[a], ev[2])
            mon.count("copies:" + ev[2])
        elif ev[0] == "tmpmerge":
            # a temporary sketch is filled, merged in and dropped (the next temporary may live at the same address)
            a = ev[1]
            tmp, tm = state.maybe_relayout(s.HyperLogLog(p, seed)), Model(p, seed)
            for op in ev[2]:
                ops.apply_op(tmp, op)
                for k, _v in ops.effects(op):
                    tm.add(k, mon)
            mon.api(real[a].merge, tmp)
            model[a].merge(tm)
            del tmp
            n_merges += 1
            mon.count("temporary_operands_merged")
        else:
            i, op = ev[0], ev[1]
            if op[0] == "ulist_bad":
                before = np.array(real[i].registers, copy=True)
                exc = ops.apply_failing(real[i], op)
                mon.check(exc is not None, "update-with-an-unacceptable-item-raises", op=op)
                trial = Model(p, seed)
                trial.reg[:] = model[i].reg
                for k, _v in ops.effects(op):
                    trial.add(k)
                if np.array_equal(real[i].registers, trial.reg):
                    for k, _v in ops.effects(op):
                        model[i].add(k, mon)
                    mon.count("failed_updates:prefix_applied")
                elif np.array_equal(real[i].registers, before):
                    mon.count("failed_updates:nothing_applied")
                else:
                    mon.check(False, "failed-update-leaves-prefix-or-nothing(registers)", op=op, p=p)
            else:
                mon.api(ops.apply_op, real[i], op)
                for k, _v in ops.effects(op):
                    if k in model[i].keys:
                        n_dups += 1
                    model[i].add(k, mon)
            mon.count("ops:" + op[0])
            i_check = i
            a = i
        if isinstance(ev[0], int) and len(ev) > 2 and ev[2] == "q" or (ev[0] == "merge" and len(ev) > 3):
            # quiescent observation in the middle of the history: query() must be the estimate of the *current* registers,
            # i.e. bit-identical to the first query() of a brand-new sketch holding the same registers
            got = float(mon.api(real[a].query))
            twin = s.HyperLogLog(p, seed)
            twin.registers[:] = real[a].registers
            want = float(twin.query())
            mon.check(got == want, "query()-reflects-current-registers(mid-history)", got=got, want=want, ev=ev, p=p, seed=seed)
            mon.count("mid_history_queries")
        # every *other* sketch must be exactly where its own history left it (no aliasing through merges)
        for j in range(n):
            if j != a and not np.array_equal(real[j].registers, model[j].reg):
                mon.check(False, "untouched-sketch-unchanged-by-an-event-on-another", ev=ev, sketch=j, p=p, seed=seed)
        mon.tick("untouched-sketch-unchanged-by-an-event-on-another", n - 1)
        ok = np.array_equal(real[a].registers, model[a].reg)
        if not ok:
            bad = np.flatnonzero(real[a].registers != model[a].reg)[:5]
            mon.check(False, "registers==model(distinct keys)", ev=ev, p=p, seed=seed, first_bad_registers=bad.tolist(),
                      got=real[a].registers[bad].tolist(), want=model[a].reg[bad].tolist())
        mon.tick("registers==model(distinct keys)")
    # quiescent point: a fresh sketch fed each distinct key exactly once
    f = case["final"]
    fresh = s.HyperLogLog(p, seed)
    for k in sorted(model[f].keys):
        fresh.add(k)
    mon.check(np.array_equal(fresh.registers, real[f].registers), "registers==fresh-sketch(distinct keys once)", p=p, seed=seed)
    q1, q2 = float(real[f].query()), float(fresh.query())
    mon.check(q1 == q2, "query-bit-identical-to-fresh-sketch", got=q1, want=q2, p=p)
    # idempotence and self-merge
    snap = np.array(real[f].registers, copy=True)
    mon.api(real[f].merge, fresh)
    mon.check(np.array_equal(real[f].registers, snap), "merge-idempotent", p=p)
    mon.api(real[f].merge, real[f])
    mon.check(np.array_equal(real[f].registers, snap), "self-merge-is-identity", p=p)
    mon.count("distinct_keys_total", len(model[f].keys))
    mon.seen("p", p)
    mon.seen("seed_class", seed if seed in SEEDS else "random")
    if n >= 3:
        mon.count("merge_trees_with_3plus_leaves")
    mon.nontrivial(n_dups >= 1 and n_merges >= 1)


def gen_crafted(rng, ctx):
    """(key, seed) pairs driving fasthash64 to a chosen index and rank: every rank of every p."""
    for p in range(7, 17):
        width = 64 - p
        for rank in range(1, width + 2):
            idx = pick(rng, [0, 1, (1 << p) - 1, int(rng.integers(0, 1 << p))])
            pattern = int(rng.integers(0, 5))
            if rank == width + 1:
                rest = 0
            elif pattern == 0:
                rest = (1 << (width - rank + 1)) - 1          # all ones below the leading zeros (2^k - 1)
            elif pattern == 1:
                rest = 1 << (width - rank)                    # exact power of two
            elif pattern == 2 and width - rank >= 1:
                rest = (1 << (width - rank + 1)) - 2          # 2^k - 2
            else:
                # rest has bit length width - rank + 1: top bit set, random below
                bl = width - rank + 1
                rest = (1 << (bl - 1)) | int(rng.integers(0, 1 << (bl - 1), dtype=np.uint64) if bl - 1 < 63 else rng.integers(0, 2**62))
            target = (rest << p) | idx
            key = rand_key(rng, 0, 7)
            seed = hashes_ref.seed_for_target(key, target)
            others = [hx(rand_key(rng, 0, 12)) for _ in range(3)]
            yield {"type": "crafted", "p": p, "seed": seed, "key": hx(key), "idx": idx, "rank": rank, "others": others}
        for target in (0, 2**64 - 1, 1, 2**63, 2**32 - 1, 2**64 - 2):
            key = rand_key(rng, 1, 7)
            seed = hashes_ref.seed_for_target(key, target)
            idx, rank = hll_ref.rank_and_index(target, p)
            yield {"type": "crafted", "p": p, "seed": seed, "key": hx(key), "idx": idx, "rank": rank, "others": [], "sentinel_target": target}


def run_crafted(case, ctx, mon):
    s = sk()
    p, seed, key = case["p"], case["seed"], unhx(case["key"])
    h = state.maybe_relayout(s.HyperLogLog(p, seed))
    m = Model(p, seed)
    mon.api(h.add, key)
    m.add(key, mon)
    mon.check(int(h.registers[case["idx"]]) == case["rank"], "crafted-hash-lands-at-chosen-register-and-rank",
              p=p, idx=case["idx"], want_rank=case["rank"], got=int(h.registers[case["idx"]]),
              nonzero=np.flatnonzero(h.registers)[:4].tolist())
    mon.check(int(np.count_nonzero(h.registers)) == 1, "one-add-touches-one-register", p=p)
    k2_used = None
    if p <= 12:
        # search a second key that lands in the same register (any rank): it must not lower a high register
        rs = np.random.default_rng(case["rank"] * 131 + p)
        for _try in range(10 << p):
            k2 = bytes(rs.integers(0, 256, int(rs.integers(1, 9)), dtype=np.uint8))
            i2, r2 = hll_ref.rank_and_index(hashes_ref.fasthash64(k2, seed), p)
            if i2 == case["idx"] and k2 != key:
                float(h.query())
                h.add(k2)
                m.add(k2, mon)
                k2_used = k2
                mon.check(int(h.registers[case["idx"]]) == max(case["rank"], r2), "register-keeps-the-maximum-rank(same-register-second-key)",
                          p=p, idx=case["idx"], first_rank=case["rank"], second_rank=r2, got=int(h.registers[case["idx"]]))
                mon.count("crafted_same_register_pairs")
                if case["rank"] == 64 - p + 1:
                    mon.count("crafted_same_register_after_max_rank")
                break
    for k in case["others"]:
        h.add(unhx(k))
        m.add(unhx(k), mon)
    # lower ranks afterwards must not lower the register; order reversed gives the same state
    h2 = s.HyperLogLog(p, seed)
    for k in reversed(case["others"]):
        h2.add(unhx(k))
    if k2_used is not None:
        h2.add(k2_used)
    h2.add(key, 5)
    mon.check(np.array_equal(h.registers, m.reg), "registers==model(distinct keys)", p=p, seed=seed)
    mon.check(np.array_equal(h.registers, h2.registers), "order-independent", p=p, seed=seed)
    if case.get("sentinel_target") is not None:
        # the key hashes to a value an implementation might use as "no hash yet": 0, 2^64-1, ...; feed it as the FIRST window of an
        # n-gram call, as the last, and alone
        for record, n in ((key + b"x", len(key)), (b"y" + key, len(key)), (key, len(key) + 1)):
            if len(key) == 0:
                continue
            hx_ = s.HyperLogLog(p, seed)
            mx = Model(p, seed)
            hx_.add_ngram(record, n)
            for wdw in hll_ref.windows(record, n):
                mx.add(wdw)
            mon.check(np.array_equal(hx_.registers, mx.reg), "registers==model(n-gram whose window hashes to a sentinel-like value)", p=p, seed=seed,
                      record=hx(record), ngram=n, hash_target=case["sentinel_target"])
        mon.count("crafted_sentinel_hashes")
    mon.seen("crafted_rank", f"p{p}:r{case['rank']}")
    mon.count("crafted")
    mon.nontrivial(case["rank"] >= 20)


def gen_exhaustive(rng, ctx):
    sizes = [4, 5, 6]
    for p in (7, 16):
        for n in sizes:
            keys = key_family(rng, n, 0, 9)
            # force register sharing at p=7 by construction is not possible without the hash; use many keys instead
            seed = int(SEEDS[int(rng.integers(0, len(SEEDS)))])
            yield {"type": "exhaustive", "p": p, "seed": seed, "keys": [hx(k) for k in keys]}


def run_exhaustive(case, ctx, mon):
    s = sk()
    p, seed = case["p"], case["seed"]
    keys = [unhx(k) for k in case["keys"]]
    want = hll_ref.registers_for(keys, p, seed)
    n_states = set()
    for perm in itertools.permutations(range(len(keys))):
        h = state.maybe_relayout(s.HyperLogLog(p, seed))
        for i in perm:
            h.add(keys[i])
        if not np.array_equal(h.registers, want):
            mon.check(False, "all-orderings-same-registers", p=p, seed=seed, perm=list(perm))
        mon.tick("all-orderings-same-registers")
        n_states.add(h.registers.tobytes())
    ref_q = None
    for mask in range(1 << len(keys)):
        a, b = state.maybe_relayout(s.HyperLogLog(p, seed)), state.maybe_relayout(s.HyperLogLog(p, seed))
        for i, k in enumerate(keys):
            (a if (mask >> i) & 1 else b).add(k)
        a2 = s.HyperLogLog(p, seed)
        a2.merge(a)
        a.merge(b)
        b.merge(a2)
        ok = np.array_equal(a.registers, want) and np.array_equal(b.registers, want)
        if not ok:
            mon.check(False, "all-2-way-partitions-both-merge-directions", p=p, seed=seed, mask=mask)
        mon.tick("all-2-way-partitions-both-merge-directions")
        q = float(a.query())
        if ref_q is None:
            ref_q = q
        mon.check(q == ref_q and float(b.query()) == ref_q, "query-identical-across-partitions", p=p, mask=mask)
    mon.count("exhaustive_permutations", len(list(itertools.permutations(range(len(keys))))))
    mon.count("exhaustive_partitions", 1 << len(keys))
    mon.count("exhaustive_sets")
    mon.nontrivial()


def gen_sentinel(rng, ctx):
    """add_ngram on keys whose windows equal typical sentinel / fill patterns: n bytes of 0x00, 0xff, 0x7f, 0x80, 0x01 at the
    start, at the end, or throughout, for every n-gram size 1..12 (rolling-window kernels tend to special-case 'no window yet'
    or 'same as the previous window')."""
    for b in (0x00, 0xFF, 0x7F, 0x80, 0x01):
        for n in range(1, 13):
            tail = bytes(rng.integers(1, 255, int(rng.integers(1, 7)), dtype=np.uint8))
            for key in (bytes([b]) * n + tail, tail + bytes([b]) * n, bytes([b]) * (n + 3), bytes([b]) * n + tail + bytes([b]) * n):
                yield {"type": "history", "p": pick(rng, [7, 10, 16]), "seed": pick(rng, [0, 1, 2**63 + 3]), "n": 1, "final": 0,
                       "events": [[0, ["ngram", hx(key), n], "q"], [0, ["ungram", [hx(key), hx(tail)], n], "q"]]}


def run_threads(case, ctx, mon):
    """Several Python threads add disjoint key sets to ONE sketch (some keys crafted to fight for the same register):
    the registers must be those of the union."""
    import threading

    s = sk()
    p, seed, n_thr = case["p"], case["seed"], case["threads"]
    h = state.maybe_relayout(s.HyperLogLog(p, seed))
    rng = np.random.default_rng(case["stream"])
    sets = [[bytes(rng.integers(0, 256, 5, dtype=np.uint8)) + bytes([t]) for _ in range(case["keys"])] for t in range(n_thr)]
    barrier = threading.Barrier(n_thr)

    def work(keys):
        barrier.wait()
        for i, k in enumerate(keys):
            h.add(k)
            if i % 64 == 0:
                h.query()

    ts = [threading.Thread(target=work, args=(ks,)) for ks in sets]
    for t in ts:
        t.start()
    for t in ts:
        t.join()
    want = hll_ref.registers_for([k for ks in sets for k in ks], p, seed)
    bad = np.flatnonzero(np.asarray(h.registers) != want)
    mon.check(len(bad) == 0, "threads:registers==model(union of all threads' keys)", n_bad=int(len(bad)), p=p, threads=n_thr, first=bad[:4].tolist())
    mon.count("thread_stress_cases")
    mon.nontrivial(True)


def run_bigkeys(case, ctx, mon):
    """Keys and documents of 64 KiB and more (length-gated paths: memoised locations, threaded shingling): the SAME bytes objects
    are added back to back to sketches that share a seed and differ in p, through add / update / add_ngram / update_ngram."""
    from ..refs import hll_ref

    s = sk()
    rng = np.random.default_rng(case["stream"])
    seed = case["seed"]
    keys = [rng.bytes(n) for n in case["lengths"]]
    sketches = {p: state.maybe_relayout(s.HyperLogLog(p, seed)) for p in case["ps"]}
    model = {p: set() for p in case["ps"]}
    for rnd in range(2):
        for k in keys:
            for p in (case["ps"] if rnd == 0 else case["ps"][::-1]):
                mon.api(sketches[p].add, k)
                model[p].add(k)
    n = case["ngram"]
    wins = set()
    for j in range(case.get("docs", 1)):
        # several documents: whether a window that a length-gated path might drop matters for a register is a coin flip per document
        doc = rng.bytes(case["doc_len"] + j)
        w_j = set(hll_ref.windows(doc, n))
        wins |= w_j
        for p in case["ps"]:
            if (p + j) % 2:
                mon.api(sketches[p].add_ngram, doc, n)
            else:
                mon.api(sketches[p].update_ngram, [doc], n)
            model[p] |= w_j
    for p in case["ps"]:
        want = hll_ref.registers_for(model[p], p, seed)
        bad = np.flatnonzero(np.asarray(sketches[p].registers) != want)
        mon.check(len(bad) == 0, "registers==model(distinct keys)", p=p, seed=seed, n_bad=int(len(bad)), first=bad[:4].tolist(),
                  how="keys of 64 KiB.. added to several sketches back to back; one document with >= 65536 windows")
    mon.count("bigkey_cases")
    mon.count("windows_of_the_largest_document", len(wins))
    mon.nontrivial(True)


def gen_cases(ctx):
    rng = ctx.rng("cases")
    # long documents from 8 threads into ONE sketch, and threads filling their own sketches (vmon/thread_common.py; round 8, seed C02-N)
    for rep in range(2 if ctx.quick else 6):
        yield {"type": "threads_long", "threads": 8, "p": 7 if rep % 2 == 0 else 9, "hll_seed": rep, "seed": 6000 + rep + 17 * ctx.shard}
    yield {"type": "threads_own", "kind": "hll", "threads": 6, "seed": 7000 + ctx.shard}
    yield {"type": "bigkeys", "seed": pick(rng, [0, 7]), "ps": [12, 16, 9], "lengths": [65535, 65536, 70001, 200000], "doc_len": 66000 + int(rng.integers(0, 9)), "docs": 7,
           "ngram": pick(rng, [3, 4, 7]), "stream": int(rng.integers(0, 2**31))}
    for rep in range(3 if ctx.quick else 8):
        # p = 7: 128 registers, thousands of keys per thread -> every register is contended
        yield {"type": "threads", "p": pick(rng, [7, 8]), "seed": pick(rng, [0, 5]), "threads": 8, "keys": 3000, "stream": int(rng.integers(0, 2**31))}
    fam = [b"ab", b"ab\x00", b"\x00", b"", b"q", b"ab\x00\x00", b"\xff\x00"]
    yield {"type": "history", "p": 10, "seed": 3, "n": 1, "final": 0,
           "events": [[0, ["ulist_rep", [hx(k) for k in fam], pick(rng, [65536, 70000])], "q"], [0, ["add", hx(b"zz"), 1]]]}
    if ctx.shard == 0 or ctx.thorough:
        yield from gen_sentinel(rng, ctx)
        yield from gen_crafted(rng, ctx)
        yield from gen_exhaustive(rng, ctx)
    n = 3000 if ctx.quick else 10**9
    for _ in range(n):
        yield gen_history(rng, ctx)


def run_case(case, ctx, mon):
    t = case["type"]
    if t in ("threads_long", "threads_own"):
        from .. import thread_common

        (thread_common.run_shared_hll if t == "threads_long" else thread_common.run_own_sketches)(case, mon)
    elif t == "threads":
        run_threads(case, ctx, mon)
    elif t == "history":
        run_history(case, ctx, mon)
    elif t == "crafted":
        run_crafted(case, ctx, mon)
    elif t == "bigkeys":
        run_bigkeys(case, ctx, mon)
    else:
        run_exhaustive(case, ctx, mon)


def run(ctx, mon):
    hashes_ref.self_test()
    run_cases(ctx, mon, gen_cases(ctx), run_case)
    mon.extra(exhaustive=False, exhaustive_part="all orderings and all 2-way partitions (both merge directions) of key sets of size 4..6 at p=7 and p=16")


def replay(case, ctx, mon):
    run_case(case, ctx, mon)


def floors(mon, ctx):
    mon.floor("rank branches of the leading-zero search", len(mon.classes["rank_branch"]), 8)
    mon.floor("values of p with the maximum rank 64-p+1 reached", len(mon.classes["max_rank_at_p"]), 2)
    mon.floor("merge trees with >= 3 leaves", mon.counters["merge_trees_with_3plus_leaves"], 20)
    mon.floor("crafted (p, rank) pairs", len(mon.classes["crafted_rank"]), sum(64 - p + 1 for p in range(7, 17)))
    mon.floor("exhaustive key sets", mon.counters["exhaustive_sets"], 4)
    mon.floor("values of p", len(mon.classes["p"]), 10)
    mon.floor("windows of the largest document fed to add_ngram", mon.counters["windows_of_the_largest_document"], 65536)
    mon.floor("query() observations in mid-history", mon.counters["mid_history_queries"], 200)
    mon.floor("same-register second keys after a maximum-rank key", mon.counters["crafted_same_register_after_max_rank"], 3)
