"""C09 - merging count-min sketches adds the counts cell by cell, as documented."""
from __future__ import annotations

import numpy as np

from .. import state
from ..common import pick, CAP, hx, key_family, run_cases, sk

ID = "C09"
LEVEL = "exploration"
TECHNIQUE = "table-level reference monitor: counter tables are set through the documented cms attribute so that counter pairs are enumerated, the real merge() runs (prange kernel, 16 threads, depth >= 16), and every merged cell is compared with a numpy oracle (decode, add, nearest re-encode) that does not use the repository's decoder"
RULE = ("case = (counter type, configuration, table pattern): log8 'all 256x256 counter pairs in one 256x256 merge' for every grid "
        "configuration; log16 'all 65536 counters vs empty', 'sampled pairs' (>= 10^6 per configuration), in the thorough tier slabs of "
        "the full 2^32 pair space of the default configuration; linear random tables with values within 2 of 2^32-1; non-trivial = the "
        "pattern contains cells of at least two of the three branches (reserved-exact / nearest / saturated); distinct = by (configuration, "
        "pattern, seed); also: one explicit (max_count, num_reserved) pair used by both log classes in either order within one process; "
        "3-4 threads merging their own pairs of linear tables (8 x 131072 and 3 x 1001 cells) at the same time")
ASSUMPTIONS = ["'nearest' is judged on decoded values computed in float64 from the sketch's public base; ties and 1-ulp disagreements accept either neighbour",
               "configurations inside the region of known finding F4 are classified by the mechanism predicate, not by this check"]
LEVEL_TEXT = ("log8: exhaustive over all counter pairs for every configuration of the grid; log16: exhaustive over single counters, "
              "sampled (thorough: exhaustive in slabs for the default configuration) over pairs; linear: random incl. ceiling-adjacent. "
              "Also commutativity, identity of the empty sketch, other operand unchanged, bookkeeping sums, estimate super-additivity.")
LEVEL_NOTE = "cross-thread interference in the prange kernels is observed by effect only (cell-by-cell comparison), not by a race detector"
BUDGET = {"quick": 90, "thorough": 420}
SHARDS = {"quick": 1, "thorough": 16}
BOUNDSCHECK = True
ENV = {"quick": {"NUMBA_NUM_THREADS": "16"}, "thorough": {"NUMBA_NUM_THREADS": "4"}}
UMAX = {"log16": 65535, "log8": 255}
DT = {"linear": np.uint32, "log16": np.uint16, "log8": np.uint8}

LOG8_GRID = [(mc, nr) for mc in (300, 1000, 10**6, 2**32 - 1, 2**63) for nr in (0, 1, 15, 100, 150)]
LOG16_GRID = [(2**32 - 1, 1023), (2**32 - 1, 0), (10**6, 100), (70000, 1023), (2**63, 5000), (2**40, 30000)]
F4_REGION = [("log8", 300, 250), ("log8", 10**6, 200), ("log16", 2**32 - 1, 60000)]


def decoded_values(kind, nr, base):
    umax = UMAX[kind]
    c = np.arange(umax + 1, dtype=np.float64)
    cp = np.maximum(c - nr, 0.0)
    vals = np.where(c <= nr, c, (np.power(base, cp) - 1.0) / (base - 1.0) + nr)
    return vals


def oracle_log(kind, cfg, base, A, B, M, mon, det):
    """Check merged table M against decode-add-nearest for input tables A, B.  Returns branch counts."""
    nr, mc = cfg["num_reserved"], cfg["max_count"]
    umax = UMAX[kind]
    vals = decoded_values(kind, nr, base)
    s = vals[A] + vals[B]
    Mi = M.astype(np.int64)
    reserved = s <= nr
    sat = ~reserved & (s >= float(mc))
    mid = ~reserved & ~sat
    # reserved range: exactly the sum
    ok_res = Mi[reserved] == s[reserved].astype(np.int64)
    if not np.all(ok_res):
        idx = np.argwhere(reserved)[np.flatnonzero(~ok_res)[0]]
        mon.check(False, "merge-log-reserved-exact", cell=idx.tolist(), a=int(A[tuple(idx)]), b=int(B[tuple(idx)]), got=int(M[tuple(idx)]),
                  want=int(s[tuple(idx)]), **det)
    mon.tick("merge-log-reserved-exact", int(reserved.sum()))
    ok_sat = Mi[sat] == umax
    if not np.all(ok_sat):
        idx = np.argwhere(sat)[np.flatnonzero(~ok_sat)[0]]
        mon.check(False, "merge-log-saturates", cell=idx.tolist(), a=int(A[tuple(idx)]), b=int(B[tuple(idx)]), got=int(M[tuple(idx)]),
                  sum=float(s[tuple(idx)]), max_count=mc, **det)
    mon.tick("merge-log-saturates", int(sat.sum()))
    # nearest: distance of the chosen counter's decoded value to the sum must be minimal
    sm = s[mid]
    got = Mi[mid]
    hi = np.searchsorted(vals, sm, side="left")
    hi = np.clip(hi, 1, umax)
    lo = hi - 1
    best = np.minimum(np.abs(vals[lo] - sm), np.abs(vals[hi] - sm))
    dist = np.abs(vals[np.clip(got, 0, umax)] - sm)
    tol = 1e-9 * np.maximum(1.0, np.abs(sm)) * 1e-3 + best * 1e-9
    ok_mid = (dist <= best + tol) & (got >= 0) & (got <= umax)
    if not np.all(ok_mid):
        j = np.flatnonzero(~ok_mid)[0]
        idx = np.argwhere(mid)[j]
        mon.check(False, "merge-log-nearest", cell=idx.tolist(), a=int(A[tuple(idx)]), b=int(B[tuple(idx)]), got=int(got[j]),
                  lower=int(lo[j]), upper=int(hi[j]), sum=float(sm[j]), decoded_lower=float(vals[lo[j]]), decoded_upper=float(vals[hi[j]]), **det)
    mon.tick("merge-log-nearest", int(mid.sum()))
    up = int((got == hi).sum())
    # a merged counter is never below either input
    low = Mi < np.maximum(A, B).astype(np.int64)
    if np.any(low):
        idx = np.argwhere(low)[0]
        mon.check(False, "merged-counter>=each-input", cell=idx.tolist(), a=int(A[tuple(idx)]), b=int(B[tuple(idx)]), got=int(M[tuple(idx)]), **det)
    mon.tick("merged-counter>=each-input", A.size)
    return int(reserved.sum()), int(sat.sum()), int(mid.sum()), up


def merged(cfg, A, B, mon, det, na=(3, 5), nb=(7, 11)):
    """Run the real merge of tables A into B's twin; returns merged table (copy)."""
    a = state.make(cfg)
    b = state.make(cfg)
    a.cms[:] = A
    b.cms[:] = B
    a.n_added_records[:] = na
    b.n_added_records[:] = nb
    bsnap = state.snapshot(b)
    mon.api(a.merge, b)
    d = state.snap_diff(bsnap, state.snapshot(b))
    mon.check(not d, "merge-leaves-other-unchanged", differs_in=d, **det)
    mon.check(int(a.n_added()) == na[0] + nb[0] and int(a.n_records()) == na[1] + nb[1], "bookkeeping-is-summed",
              n_added=int(a.n_added()), n_records=int(a.n_records()), **det)
    return a, b


def tables_for(case):
    kind, pat = case["kind"], case["pattern"]
    dt = DT[kind]
    rng = np.random.default_rng(case.get("seed", 0))
    if pat == "all-pairs-256":
        i = np.arange(256, dtype=dt)
        return np.repeat(i[:, None], 256, 1), np.repeat(i[None, :], 256, 0)
    if pat == "all-counters-vs-empty":
        A = np.arange(65536, dtype=dt).reshape(16, 4096)
        return A, np.zeros_like(A)
    if pat == "empty-vs-all-counters":
        A = np.arange(65536, dtype=dt).reshape(16, 4096)
        return np.zeros_like(A), A
    if pat == "sampled-pairs":
        shape = (case.get("rows", 16), case.get("cols", 65536))
        umax = UMAX[kind]
        nr = case["cfg"]["num_reserved"]
        A = rng.integers(0, umax + 1, shape).astype(dt)
        B = rng.integers(0, umax + 1, shape).astype(dt)
        # a third of the cells inside / around the reserved range, a sixth near the ceiling
        m1 = rng.random(shape) < 0.33
        A[m1] = rng.integers(0, min(umax, nr + 3) + 1, int(m1.sum())).astype(dt)
        B[m1] = rng.integers(0, min(umax, nr + 3) + 1, int(m1.sum())).astype(dt)
        m2 = rng.random(shape) < 0.15
        A[m2] = rng.integers(max(0, umax - 40), umax + 1, int(m2.sum())).astype(dt)
        return A, B
    if pat == "few-distinct":
        umax = UMAX[kind]
        nr = case["cfg"]["num_reserved"]
        vals_a = rng.integers(nr + 1, umax, 3)
        vals_b = rng.integers(nr + 1, umax, 3)
        shape = (64, 2048)
        A = vals_a[rng.integers(0, 3, shape)].astype(dt)
        B = vals_b[rng.integers(0, 3, shape)].astype(dt)
        return A, B
    if pat == "slab":
        # rows a0..a0+rows-1 of the full 65536 x 65536 pair space
        a0, rows = case["a0"], case["rows"]
        A = np.repeat(np.arange(a0, a0 + rows, dtype=dt)[:, None], 65536, 1)
        B = np.repeat(np.arange(65536, dtype=dt)[None, :], rows, 0)
        return A, B
    if pat == "linear-random":
        shape = (case.get("depth", 16), case.get("width", 2048))
        A = rng.integers(0, 2**32, shape, dtype=np.uint64)
        B = rng.integers(0, 2**32, shape, dtype=np.uint64)
        m = rng.random(shape) < 0.4
        A[m] = rng.integers(0, 1000, int(m.sum()))
        m = rng.random(shape) < 0.3
        B[m] = rng.integers(0, 1000, int(m.sum()))
        m = rng.random(shape) < 0.1
        A[m] = CAP - rng.integers(0, 3, int(m.sum())).astype(np.uint64)
        m = rng.random(shape) < 0.1
        B[m] = CAP - rng.integers(0, 3, int(m.sum())).astype(np.uint64)
        m = rng.random(shape) < 0.1
        B[m] = CAP - A[m] + rng.integers(0, 5, int(m.sum())).astype(np.uint64) - 2  # sums within +-2 of the ceiling
        B = np.minimum(B, CAP)
        return A.astype(dt), B.astype(dt)
    raise ValueError(pat)


def run_table_case(case, ctx, mon):
    kind = case["kind"]
    cfg = dict(case["cfg"], kind=kind)
    A, B = tables_for(case)
    cfg["width"], cfg["depth"] = int(A.shape[1]), int(A.shape[0])
    det = {"cfg": {k: cfg[k] for k in ("kind", "max_count", "num_reserved") if k in cfg}, "pattern": case["pattern"]}
    a, b = merged(cfg, A, B, mon, det)
    M = np.array(a.cms, copy=True)
    if kind == "linear":
        want = np.minimum(A.astype(np.uint64) + B.astype(np.uint64), CAP).astype(np.uint32)
        bad = np.argwhere(M != want)
        mon.check(len(bad) == 0, "merge-linear==min(a+b,cap)", n_bad=len(bad), first=(bad[0].tolist() if len(bad) else None),
                  a=int(A[tuple(bad[0])]) if len(bad) else None, b=int(B[tuple(bad[0])]) if len(bad) else None,
                  got=int(M[tuple(bad[0])]) if len(bad) else None, **det)
        mon.tick("merge-linear==min(a+b,cap)", A.size - 1)
        nsat = int((A.astype(np.uint64) + B.astype(np.uint64) >= CAP).sum())
        mon.count("linear_cells", A.size)
        mon.count("linear_cells_saturating", nsat)
        mon.nontrivial(nsat > 0)
    else:
        base = float(a.base)
        res, sat, mid, up = oracle_log(kind, cfg, base, A, B, M, mon, det)
        mon.count(f"{kind}_cells_reserved_exact", res)
        mon.count(f"{kind}_cells_saturated", sat)
        mon.count(f"{kind}_cells_nearest", mid)
        mon.count(f"{kind}_cells_rounded_up", up)
        mon.count(f"{kind}_pairs", A.size)
        mon.nontrivial((res > 0) + (sat > 0) + (mid > 0) >= 2)
        if case["pattern"] == "all-pairs-256":
            mon.count("log8_all_pairs_configs")
            mon.seen("log8_all_pairs_cfg", f"{cfg['max_count']}/{cfg['num_reserved']}")
    # commutativity: merge(b, a) gives the same table
    a2, b2 = merged(cfg, B, A, mon, det, na=(7, 11), nb=(3, 5))
    mon.check(np.array_equal(a2.cms, M), "merge-commutes", n_diff=int((a2.cms != M).sum()), **det)
    # identity: merging an empty sketch changes nothing
    e = state.make(cfg)
    before = np.array(a.cms, copy=True)
    mon.api(a.merge, e)
    mon.check(np.array_equal(a.cms, before), "merging-empty-sketch-is-identity", n_diff=int((a.cms != before).sum()), **det)
    mon.seen("threads", _threads())


def _threads():
    import numba

    return numba.get_num_threads()


def run_churn_case(case, ctx, mon):
    """A long-lived process: a configuration is merged (all counter pairs checked), then several hundred other configurations of
    the same class are merged, then the first one again - whatever is cached per configuration must still belong to it."""
    first = {"type": "table", "kind": case["kind"], "cfg": case["cfg"], "pattern": "all-pairs-256" if case["kind"] == "log8" else "all-counters-vs-empty"}
    run_table_case(first, ctx, mon)
    rng = np.random.default_rng(case["seed"])
    for i in range(case["others"]):
        cfg = {"kind": case["kind"], "width": 2, "depth": 1, "max_count": int(2**21 + 1009 * i), "num_reserved": int(i % 150)}
        a, b = state.make(cfg), state.make(cfg)
        a.cms[...] = rng.integers(0, 200, size=a.cms.shape)
        b.cms[...] = rng.integers(0, 200, size=b.cms.shape)
        a.merge(b)
    run_table_case(first, ctx, mon)
    mon.count("configurations_merged_between_two_checks_of_one_configuration", case["others"])
    mon.nontrivial(True)


def run_threads_case(case, ctx, mon):
    """Several threads, each merging its own unrelated pair of large linear tables (>= 4 MiB each) at the same time: every
    result must be min(a + n*b, cap) cell by cell, b unchanged - whatever scratch space a merge uses belongs to that merge."""
    import threading

    n_thr, n_merges, d, w = case["threads"], case["merges"], case["depth"], case["width"]
    rng = np.random.default_rng(case["seed"])
    cfg = {"kind": "linear", "width": w, "depth": d}
    pairs, refs = [], []
    for t in range(n_thr):
        a, b = state.make(cfg), state.make(cfg)
        a.cms[...] = rng.integers(0, 2**32, size=(d, w), dtype=np.uint64).astype(np.uint32)
        b.cms[...] = rng.integers(0, 2000, size=(d, w), dtype=np.uint64).astype(np.uint32)
        a.cms[0, : w // 2] = rng.integers(0, 2**20, size=w // 2, dtype=np.uint64).astype(np.uint32)
        pairs.append((a, b))
        refs.append((a.cms.astype(np.uint64), b.cms.copy()))
    errors = []
    barrier = threading.Barrier(n_thr)

    def work(t):
        try:
            a, b = pairs[t]
            for _ in range(n_merges):
                barrier.wait(timeout=120)
                a.merge(b)
        except Exception as exc:  # noqa: BLE001
            errors.append(f"thread {t}: {type(exc).__name__}: {exc}")

    ts = [threading.Thread(target=work, args=(t,)) for t in range(n_thr)]
    for t in ts:
        t.start()
    for t in ts:
        t.join(600)
    mon.check(not errors, "concurrent-merges-of-unrelated-sketches-all-succeed", errors=errors[:3])
    for t, ((a, b), (a0, b0)) in enumerate(zip(pairs, refs)):
        want = np.minimum(a0 + n_merges * b0.astype(np.uint64), CAP).astype(np.uint32)
        bad = np.flatnonzero(a.cms.ravel() != want.ravel())
        mon.check(len(bad) == 0, "merge-linear==min(a+b,cap)", n_bad=int(len(bad)), thread=t, threads=n_thr, merges=n_merges, shape=[d, w],
                  first=[[int(a.cms.ravel()[i]), int(want.ravel()[i])] for i in bad[:3]], how="own pair of tables merged while other threads merged theirs")
        mon.check(np.array_equal(b.cms, b0), "merge-leaves-b-unchanged", thread=t)
        mon.tick("merge-linear==min(a+b,cap)", a.cms.size)
    mon.count("concurrent_merge_cases")
    mon.count("concurrent_merges", n_thr * n_merges)
    mon.nontrivial(True)


def run_estimate_case(case, ctx, mon):
    """Linear sketches built by real adds: merged estimate >= min(sum of the two estimates, cap)."""
    rng = np.random.default_rng(case["seed"])
    cfg = {"kind": "linear", "width": case["width"], "depth": case["depth"]}
    a, b = state.make(cfg), state.make(cfg)
    keys = key_family(rng, 40, 0, 8)
    for s in (a, b):
        for _ in range(60):
            k = keys[int(rng.integers(0, len(keys)))]
            v = pick(rng, [1, 2, 50, 10**6, CAP - 5, 2**31])
            s.add(k, v)
    ea = {k: int(a.query(k)) for k in keys}
    eb = {k: int(b.query(k)) for k in keys}
    mon.api(a.merge, b)
    for k in keys:
        got = int(a.query(k))
        mon.check(got >= min(ea[k] + eb[k], CAP), "merged-estimate>=min(sum-of-estimates,cap)", key=hx(k), got=got, a=ea[k], b=eb[k], cfg=cfg)
    mon.count("estimate_cases")
    mon.nontrivial()


def gen_cases(ctx):
    rng = ctx.rng("cases")
    q = ctx.quick
    sh, ns = ctx.shard, ctx.nshards
    cases = []
    # the same explicit (max_count, num_reserved) pair used by both log classes in one process, in either order (whatever one
    # class computed or cached for the pair must not leak into the other class)
    for first, second, (mc, nr) in (("log16", "log8", (200000, 7)), ("log8", "log16", (100000, 9)), ("log16", "log8", (2**20, 15))):
        for kind in (first, second):
            cases.append({"type": "table", "kind": kind, "cfg": {"max_count": mc, "num_reserved": nr}, "class_order": f"{first}-then-{second}",
                          "pattern": "all-pairs-256" if kind == "log8" else "all-counters-vs-empty"})
    for mc, nr in LOG8_GRID:
        cases.append({"type": "table", "kind": "log8", "cfg": {"max_count": mc, "num_reserved": nr}, "pattern": "all-pairs-256"})
    for mc, nr in LOG16_GRID[: (3 if q else len(LOG16_GRID))]:
        c = {"max_count": mc, "num_reserved": nr}
        cases.append({"type": "table", "kind": "log16", "cfg": c, "pattern": "all-counters-vs-empty"})
        cases.append({"type": "table", "kind": "log16", "cfg": c, "pattern": "empty-vs-all-counters"})
        cases.append({"type": "table", "kind": "log16", "cfg": c, "pattern": "sampled-pairs", "seed": int(rng.integers(0, 2**31))})
    for kind, (mc, nr) in (("log8", (2**32 - 1, 15)), ("log16", (2**32 - 1, 1023)), ("log8", (1000, 0)), ("log16", (10**6, 100))):
        # odd shapes: cell counts that are not multiples of 8/16/64
        cases.append({"type": "table", "kind": kind, "cfg": {"max_count": mc, "num_reserved": nr}, "pattern": "sampled-pairs",
                      "seed": int(rng.integers(0, 2**31)), "rows": pick(rng, [7, 1, 33]), "cols": pick(rng, [1001, 17, 257])})
    for rep in range(3):
        for kind, (mc, nr) in (("log8", (2**32 - 1, 15)), ("log16", (2**32 - 1, 1023))):
            cases.append({"type": "table", "kind": kind, "cfg": {"max_count": mc, "num_reserved": nr}, "pattern": "few-distinct", "seed": int(rng.integers(0, 2**31))})
    for kind, mc, nr in F4_REGION:
        c = {"max_count": mc, "num_reserved": nr}
        if kind == "log8":
            cases.append({"type": "table", "kind": kind, "cfg": c, "pattern": "all-pairs-256"})
        else:
            cases.append({"type": "table", "kind": kind, "cfg": c, "pattern": "all-counters-vs-empty"})
    # shapes incl. cell counts that are not multiples of 8/16/64 (chunked or vectorised kernels must not drop a tail)
    for i, (dd, ww) in enumerate([(16, 2048), (33, 7), (1, 1), (5, 257), (8, 1009), (3, 1000), (1, 17), (17, 1)]):
        cases.append({"type": "table", "kind": "linear", "cfg": {}, "pattern": "linear-random", "seed": int(rng.integers(0, 2**31)),
                      "depth": dd, "width": ww})
    cases.append({"type": "churn", "kind": "log8", "cfg": {"max_count": 2**32 - 1, "num_reserved": 100}, "others": 700, "seed": int(rng.integers(0, 2**31))})
    cases.append({"type": "churn", "kind": "log16", "cfg": {"max_count": 10**6, "num_reserved": 100}, "others": 300, "seed": int(rng.integers(0, 2**31))})
    cases.append({"type": "threads", "threads": 4, "merges": 8, "depth": 8, "width": 131072, "seed": int(rng.integers(0, 2**31))})
    cases.append({"type": "threads", "threads": 3, "merges": 8, "depth": 3, "width": 1001, "seed": int(rng.integers(0, 2**31))})
    for i in range(6):
        cases.append({"type": "estimate", "seed": int(rng.integers(0, 2**31)), "width": int(rng.integers(1, 20)), "depth": int(rng.integers(1, 6))})
    for i, c in enumerate(cases):
        if q or i % ns == sh or c["pattern" if "pattern" in c else "type"] == "all-pairs-256" and sh == 0:
            yield c
    if q:
        return
    # thorough: slabs of the full log16 pair space of the default configuration, then more sampled pairs
    rows = 64
    slabs = list(range(0, 65536, rows))
    mine = slabs[sh::ns]
    order = ctx.rng("slab-order").permutation(len(mine))
    for j in order:
        yield {"type": "table", "kind": "log16", "cfg": {"max_count": 2**32 - 1, "num_reserved": 1023}, "pattern": "slab", "a0": int(mine[j]), "rows": rows}
    while True:
        mc, nr = LOG16_GRID[int(rng.integers(0, len(LOG16_GRID)))]
        yield {"type": "table", "kind": "log16", "cfg": {"max_count": mc, "num_reserved": nr}, "pattern": "sampled-pairs", "seed": int(rng.integers(0, 2**31))}
        yield {"type": "table", "kind": "linear", "cfg": {}, "pattern": "linear-random", "seed": int(rng.integers(0, 2**31)), "depth": 16, "width": 4096}


def run_case(case, ctx, mon):
    if case["type"] == "table":
        run_table_case(case, ctx, mon)
    elif case["type"] == "threads":
        run_threads_case(case, ctx, mon)
    elif case["type"] == "churn":
        run_churn_case(case, ctx, mon)
    else:
        run_estimate_case(case, ctx, mon)


def run(ctx, mon):
    run_cases(ctx, mon, gen_cases(ctx), run_case)
    mon.extra(exhaustive=False, exhaustive_part="log8: all 65536 counter pairs per grid configuration; log16: all 65536 counters vs the empty sketch; thorough: slabs of the 2^32 log16 pair space (default configuration)")


def replay(case, ctx, mon):
    run_case(case, ctx, mon)


def floors(mon, ctx):
    mon.floor("log8 configurations with all pairs", len(mon.classes["log8_all_pairs_cfg"]), len(LOG8_GRID))
    for kind in ("log8", "log16"):
        mon.floor(f"{kind} cells in the reserved-exact branch", mon.counters[f"{kind}_cells_reserved_exact"], 1000)
        mon.floor(f"{kind} cells in the saturation branch", mon.counters[f"{kind}_cells_saturated"], 1000)
        mon.floor(f"{kind} cells rounded up", mon.counters[f"{kind}_cells_rounded_up"], 1000)
    mon.floor("log16 pairs", mon.counters["log16_pairs"], 10**6)
    mon.floor("linear saturating cells", mon.counters["linear_cells_saturating"], 100)
    mon.floor("merges of unrelated large tables running in several threads at once", mon.counters["concurrent_merges"], 30)
    mon.floor("configurations merged between two checks of one configuration", mon.counters["configurations_merged_between_two_checks_of_one_configuration"], 900)
    mon.floor("estimate cases", mon.counters["estimate_cases"], 3)
