"""C06 - log counters are exact in the reserved range and unbiased beyond it, driven by fresh draws."""
from __future__ import annotations

import math
import os
import subprocess
import sys

import numpy as np

from .. import state
from ..common import hx, key_family, pick, run_cases, sk, unhx

ID = "C06"
LEVEL = "exploration"
TECHNIQUE = "placed-draw decision monitor over every counter value (draw set just below / just above base^-(c-num_reserved) through the documented rand_nums/rand_ptr attributes), exact-Markov-chain goodness-of-fit monitor of the estimate's law, reserved-range exactness and lower-bound invariants, and a refill monitor on successive draw batches; thread stress with long kernel calls (exactness in the reserved range for a key added by one thread while others query the same 32-row sketch)"
RULE = ("cases: (a) reserved range - configuration x way of reaching every total 0..num_reserved+1; (b) placed draws - configuration x "
        "counter value x side of the decision boundary; (c) law - configuration x total N x T trials compared with the exact chain "
        "(chi-square at 1e-10, mean at |z| <= 7); (d) lower bound - random histories with merges; (e) refills - R successive batches. "
        "(f) fork - parent and forked child both replenish draw batches after the fork, no replenished batch may be common. "
        "non-trivial = a case that exercised the probabilistic range (counter >= num_reserved) or a refill; distinct = by case digest")
ASSUMPTIONS = ["the public attributes rand_nums / rand_ptr hold the draws the next adds will consume (as documented); placing a draw means filling the batch with one value",
               "statistical clauses have a per-run false-alarm budget below 1e-9; bias below about 0.3% of N at T = 2*10^4 (quick) is not resolved",
               "configurations inside the region of known finding F4 are not used here"]
LEVEL_TEXT = ("Deterministic part exhaustive over counter values (log8 all 256; log16 all 65536 in the thorough tier, a stride in quick) for "
              "a grid of configurations; stochastic part compared with the exact distribution, not with a tolerance band.")
LEVEL_NOTE = "theta and decoded values are recomputed by the harness from the public base; the chain is built from the statement, not from the code"
BUDGET = {"quick": 90, "thorough": 480}
SHARDS = {"quick": 1, "thorough": 16}
UMAX = {"log16": 65535, "log8": 255}
GRID = {
    "log8": [(300, 0), (300, 15), (1000, 15), (10**6, 15), (2**32 - 1, 15), (2**32 - 1, 0), (2**32 - 1, 100), (2**63, 15), (5000, 1)],
    "log16": [(70000, 1023), (2**32 - 1, 1023), (2**32 - 1, 0), (10**6, 100), (2**40, 5000)],
}


def mk(kind, mc, nr, width=1, depth=1):
    return state.make({"kind": kind, "width": width, "depth": depth, "max_count": mc, "num_reserved": nr})


def chi2_quantile(df, z=6.4):
    """Wilson-Hilferty upper quantile of chi-square(df) at normal deviate z (6.4 ~ 8e-11), with 8% margin."""
    df = max(df, 1)
    return 1.08 * df * (1 - 2 / (9 * df) + z * math.sqrt(2 / (9 * df))) ** 3 + 2.0


# ------------------------------------------------------------------------------------------ (a)
def run_reserved(case, ctx, mon):
    kind, mc, nr = case["kind"], case["max_count"], case["num_reserved"]
    key = unhx(case["key"])
    rng = np.random.default_rng(case["seed"])
    top = nr + 1
    # unit adds
    s = mk(kind, mc, nr, 64, 2)
    true = 0
    mon.check(float(s.query(key)) == 0.0, "reserved:estimate==true", true=0, got=float(s.query(key)), how="empty", cfg=case)
    limit = top if top <= 1300 or ctx.thorough else 1300
    while true < limit:
        s.add(key)
        true += 1
        q = float(s.query(key))
        if q != true:
            mon.check(False, "reserved:estimate==true", true=true, got=q, how="unit adds", cfg=case)
    mon.tick("reserved:estimate==true", limit)
    # one multi-add to each of a few totals, and mixed steps
    for total in sorted(t for t in {0, 1, 2, max(0, nr - 1), nr, top, int(rng.integers(0, top + 1))} if t <= top):
        s = mk(kind, mc, nr, 64, 2)
        s.add(key, total)
        mon.check(float(s.query(key)) == total, "reserved:estimate==true", true=total, got=float(s.query(key)), how="one multi-add", cfg=case)
        s = mk(kind, mc, nr, 64, 2)
        t = 0
        while t < total:
            v = min(total - t, int(rng.integers(0, 9)))
            s.add(key, v)
            t += v
            mon.check(float(s.query(key)) == t, "reserved:estimate==true", true=t, got=float(s.query(key)), how="mixed steps", cfg=case)
        mon.check(float(s[key]) == float(s.query(key)), "getitem==query", cfg=case)
    mon.count("reserved_cases")
    mon.nontrivial(True)


# ------------------------------------------------------------------------------------------ (b)
def run_placed(case, ctx, mon):
    kind, mc, nr = case["kind"], case["max_count"], case["num_reserved"]
    umax = UMAX[kind]
    key = b"k"
    s = mk(kind, mc, nr, 1, 2)
    base = float(s.base)
    lo, hi, stride = case["lo"], case["hi"], case["stride"]
    n_prob = 0
    for c in range(lo, hi + 1, stride):
        theta = 1.0 if c < nr else base ** (-(c - nr))
        for side in ("below", "above"):
            if side == "below":
                u = min(theta * (1 - 1e-9), 1 - 2.0 ** -53)
            else:
                u = theta * (1 + 1e-9)
                if c < nr:
                    u = 1 - 2.0 ** -53  # reserved range: must advance whatever the draw
                elif u >= 1.0:
                    continue  # no valid draw lies above a probability of one
            s.cms[:] = c
            s.rand_nums[:] = u
            s.rand_ptr = 0
            before = float(s.query(key))
            s.add(key, 1)
            after_c = int(s.cms.min())
            after = float(s.query(key))
            if c >= umax:
                want = c
            elif c < nr or side == "below":
                want = c + 1
            else:
                want = c
            if after_c != want or not np.all(s.cms == want):
                mon.check(False, "placed-draw:counter-moves-iff-draw<base^-(c-num_reserved)", counter=c, side=side, draw=u, theta=theta, got=after_c,
                          want=want, cfg=case)
            if want == c + 1 and c >= nr:
                rise = base ** (c - nr)
                if not abs((after - before) - rise) <= 1e-9 * max(1.0, rise) + 1e-9 * abs(after):
                    mon.check(False, "decoded-value-rises-by-base^(c-num_reserved)", counter=c, before=before, after=after, want_rise=rise, cfg=case)
                mon.tick("decoded-value-rises-by-base^(c-num_reserved)")
            if want == c + 1 and c < nr:
                if after - before != 1.0:
                    mon.check(False, "reserved:unit-step-rises-by-one", counter=c, before=before, after=after, cfg=case)
            mon.tick("placed-draw:counter-moves-iff-draw<base^-(c-num_reserved)")
            if c >= nr:
                n_prob += 1
            mon.seen(f"placed:{kind}:{mc}/{nr}", c) if kind == "log8" else None
    mon.count(f"placed_draws:{kind}", n_prob)
    mon.count("placed_counter_values:" + kind, len(range(lo, hi + 1, stride)))
    mon.nontrivial(n_prob > 0)


# ------------------------------------------------------------------------------------------ (c)
def chain(base, nr, umax, N):
    """Exact law of the counter after N unit adds starting from 0 (statement's transition probabilities)."""
    K = min(umax, N) + 1
    c = np.arange(K, dtype=np.float64)
    theta = np.where(c < nr, 1.0, np.power(base, -(np.maximum(c - nr, 0.0))))
    theta[c >= umax] = 0.0
    dist = np.zeros(K)
    dist[0] = 1.0
    for _ in range(N):
        mv = dist * theta
        dist = dist - mv
        dist[1:] += mv[:-1]
    return dist


def run_law(case, ctx, mon):
    kind, mc, nr, N, T = case["kind"], case["max_count"], case["num_reserved"], case["N"], case["T"]
    umax = UMAX[kind]
    s = mk(kind, mc, nr, 1, 1)
    base = float(s.base)
    key = b"k"
    finals = np.zeros(T, np.int64)
    ests = np.zeros(T)
    via = case.get("via", "add")
    # every entry point must drive the counter with fresh draws: N unit additions delivered through `via`
    # (the sketch is 1 x 1, so every key owns the one counter)
    steps = {"add": None,
             "add_ngram_short": (lambda: s.add_ngram(key, 5), 1),
             "add_ngram_windows": (lambda: s.add_ngram(b"kkkk", 1), 4),
             "update_list": (lambda: s.update([key] * 10), 10),
             "update_dict": (lambda: s.update({key: 7, b"other": 3}), 10),
             "update_ngram": (lambda: s.update_ngram([b"kkk", b"k"], 1), 4)}[via]
    for t in range(T):
        s.cms[0, 0] = 0
        if steps is None:
            s.add(key, N)
        else:
            fn, per = steps
            for _ in range(N // per):
                fn()
        finals[t] = s.cms[0, 0]
        ests[t] = s.query(key)
    mon.seen("law_via", f"{kind}:{via}")
    dist = chain(base, nr, umax, N)
    K = len(dist)
    vals = state.decode_table(np.arange(K), nr, base)
    mean_exact = float(np.sum(dist * vals))
    var_exact = float(np.sum(dist * vals * vals) - mean_exact**2)
    if vals[-1] < mc and K - 1 < umax:
        mon.check(abs(mean_exact - N) <= 1e-6 * N + 1e-9, "oracle-sanity:chain-mean==N", mean=mean_exact, N=N)
    # goodness of fit on bins with expectation >= 20
    exp = dist * T
    obs = np.bincount(np.clip(finals, 0, K - 1), minlength=K).astype(np.float64)
    bins_o, bins_e = [], []
    acc_o = acc_e = 0.0
    for o, e in zip(obs, exp):
        acc_o += o
        acc_e += e
        if acc_e >= 20:
            bins_o.append(acc_o)
            bins_e.append(acc_e)
            acc_o = acc_e = 0.0
    if bins_e:
        bins_o[-1] += acc_o
        bins_e[-1] += acc_e
    else:
        bins_o, bins_e = [acc_o], [acc_e]
    bo, be = np.array(bins_o), np.array(bins_e)
    chi2 = float(np.sum((bo - be) ** 2 / be))
    df = max(1, len(be) - 1)
    mon.check(chi2 <= chi2_quantile(df), "law-of-final-counter==exact-Markov-chain(chi-square)", chi2=chi2, df=df, limit=chi2_quantile(df),
              N=N, T=T, cfg={"kind": kind, "max_count": mc, "num_reserved": nr}, observed_mean_counter=float(finals.mean()),
              expected_mean_counter=float(np.sum(dist * np.arange(K))))
    m = float(ests.mean())
    se = math.sqrt(max(var_exact, 1e-12) / T)
    z = (m - mean_exact) / se if se > 0 else 0.0
    mon.check(abs(z) <= 7.0 or abs(m - mean_exact) <= 1e-9 * N, "mean-estimate==true-count(z-test, exact variance)", mean=m, expected=mean_exact, z=z, N=N, T=T,
              cfg={"kind": kind, "max_count": mc, "num_reserved": nr})
    # the estimate reported is the decoded counter
    j = int(finals[0])
    mon.check(abs(float(ests[0]) - float(vals[min(j, K - 1)])) <= 1e-9 * max(1.0, abs(float(ests[0]))), "estimate==documented-decoding-of-counter",
              counter=j, estimate=float(ests[0]), decoded=float(vals[min(j, K - 1)]))
    mon.count("law_cases")
    mon.count("law_trials", T)
    mon.seen("law_cfg", f"{kind}:{mc}/{nr}")
    mon.extra(statistical_resolution="mean estimate resolved to ~7*sd/sqrt(T) of the exact chain; chi-square over bins with expectation >= 20")
    mon.nontrivial(N > nr + 1)


# ------------------------------------------------------------------------------------------ (d)
def run_lower(case, ctx, mon):
    from .. import ops
    from collections import Counter

    cfg = case["cfg"]
    nr = cfg["num_reserved"]
    real = [state.make(cfg), state.make(cfg)]
    ghost = [Counter(), Counter()]
    universe = ops.universe_of([e[1] for e in case["events"] if isinstance(e[0], int)])
    for ev in case["events"]:
        if ev[0] == "merge":
            real[ev[1]].merge(real[ev[2]])
            ghost[ev[1]] = ghost[ev[1]] + ghost[ev[2]]
            t = ev[1]
            mon.count("lower_bound_merges")
        else:
            i, op = ev
            ops.apply_op(real[i], op)
            for k, v in ops.effects(op):
                ghost[i][k] += v
            t = i
        for k in universe:
            q = float(real[t].query(k))
            lo = min(ghost[t].get(k, 0), nr + 1)
            if q < lo:
                mon.check(False, "estimate>=min(true,num_reserved+1)", key=hx(k), estimate=q, true=ghost[t].get(k, 0), num_reserved=nr, ev=ev, cfg=cfg)
        mon.tick("estimate>=min(true,num_reserved+1)", len(universe))
    mon.count("lower_bound_histories")
    mon.nontrivial(any(f > nr + 1 for g in ghost for f in g.values()))


# ------------------------------------------------------------------------------------------ (e)
PEEK = r"""
import sys
import numpy as np
from sketchnu.countmin import CountMin
s = CountMin(sys.argv[1], 1, 1)
first = s.rand_nums[:4].tolist()
s.cms[:] = 200
s.rand_ptr = 2048
s.add(b"k", 1)
print(repr((first, s.rand_nums[:4].tolist())))
"""


def run_refill(case, ctx, mon):
    kind, R = case["kind"], case["R"]
    umax = UMAX[kind]
    s = mk(kind, 2**32 - 1, 15 if kind == "log8" else 1023, 1, 1)
    key = b"k"
    park = umax - 3  # a counter that almost never moves and is not the ceiling
    batches = [np.array(s.rand_nums, copy=True)]
    s2 = mk(kind, 2**32 - 1, 15 if kind == "log8" else 1023, 1, 1)
    mon.check(not np.array_equal(s.rand_nums, s2.rand_nums), "two-fresh-sketches-start-from-different-batches")
    # applications that re-seed NumPy's global generator for reproducibility (or fork) must not get correlated sketches
    st = np.random.get_state()
    np.random.seed(12345)
    g1 = mk(kind, 2**32 - 1, 15 if kind == "log8" else 1023, 1, 1)
    np.random.seed(12345)
    g2 = mk(kind, 2**32 - 1, 15 if kind == "log8" else 1023, 1, 1)
    np.random.set_state(st)
    mon.check(float(np.mean(np.asarray(g1.rand_nums) == np.asarray(g2.rand_nums))) < 0.01, "sketches-built-after-np.random.seed(s)-draw-different-numbers", kind=kind)
    for r in range(R):
        s.cms[:] = park
        s.rand_ptr = 0
        s.add(key, 2048)  # consumes the whole batch
        mon.check(int(s.rand_ptr) == 2048, "batch-of-2048-consumed-by-2048-probabilistic-steps", rand_ptr=int(s.rand_ptr), round=r)
        prev = np.array(s.rand_nums, copy=True)
        s.cms[:] = park
        s.add(key, 1)  # needs one more draw: must come from a new batch
        new = np.array(s.rand_nums, copy=True)
        mon.check(int(s.rand_ptr) == 1, "pointer-restarts-after-refill", rand_ptr=int(s.rand_ptr), round=r)
        same = float(np.mean(new == prev))
        mon.check(same < 0.01, "refill-replaces-the-batch", fraction_equal_to_previous=same, round=r)
        mon.check(bool(np.all((new >= 0.0) & (new < 1.0))), "draws-in-[0,1)", lo=float(new.min()), hi=float(new.max()))
        for j, old in enumerate(batches):
            if float(np.mean(new == old)) >= 0.01:
                mon.check(False, "batch-never-recycled", round=r, equals_batch=j, fraction_equal=float(np.mean(new == old)))
        mon.tick("batch-never-recycled", len(batches))
        batches.append(new)
        mon.count("refills_observed")
    # observational: without touching the pointer, count the probabilistic unit adds served between two changes of the
    # batch content; a batch of n values that serves more than n draws has recycled one
    s3 = mk(kind, 2**32 - 1, 15 if kind == "log8" else 1023, 1, 1)
    gaps = []
    since = 0
    last = s3.rand_nums.tobytes()
    for _ in range(3 * 2048 + 600):
        s3.cms[:] = park
        s3.add(key, 1)
        cur = s3.rand_nums.tobytes()
        if cur != last:
            gaps.append(since)
            since = 0
            last = cur
        since += 1
    for g in gaps[1:]:
        mon.check(g <= len(s3.rand_nums), "a-batch-serves-at-most-its-length-in-draws", gaps=gaps, batch_length=int(len(s3.rand_nums)))
    mon.check(len(gaps) >= 3, "batches-are-replenished-when-exhausted", gaps=gaps)
    allv = np.sort(np.concatenate(batches[1:]))
    n = len(allv)
    d = float(np.max(np.abs(allv - (np.arange(1, n + 1) - 0.5) / n))) + 0.5 / n
    lim = math.sqrt(math.log(2 / 1e-10) / (2 * n))
    mon.check(d <= lim, "refilled-draws-uniform(KS)", D=d, limit=lim, n=n)
    # lag-2048 repetition between consecutive batches
    rep = float(np.mean(np.concatenate(batches[1:-1]) == np.concatenate(batches[2:]))) if R >= 2 else 0.0
    mon.check(rep < 0.01, "no-lag-2048-repetition", fraction=rep)
    # an update() interrupted by an unacceptable item must not hand the draws it already used to the next adds
    s4 = mk(kind, 2**32 - 1, 15 if kind == "log8" else 1023, 1, 1)
    s4.cms[:] = park
    s4.rand_ptr = 100
    try:
        s4.update([key] * 50 + ["not-bytes"] + [key] * 10)
        raised = False
    except Exception:  # noqa: BLE001
        raised = True
    mon.check(raised, "update-with-an-unacceptable-item-raises", kind=kind)
    mon.check(int(s4.rand_ptr) in (150, 100) and (int(s4.rand_ptr) == 150 or int(s4.n_added()) == 0), "draws-used-by-an-interrupted-update-are-not-served-again",
              rand_ptr=int(s4.rand_ptr), n_added=int(s4.n_added()), kind=kind)
    # save/load must not hand the same unconsumed draws to several objects
    s.cms[:] = 0
    s.add(key, 40)
    l1 = state.save_load(s, kind, False, False)
    l2 = state.save_load(s, kind, False, True)
    for name, x, y in (("copy-vs-copy", l1, l2), ("copy-vs-original", l1, s)):
        mon.check(float(np.mean(np.asarray(x.rand_nums) == np.asarray(y.rand_nums))) < 0.01, "loaded-copies-draw-their-own-numbers", which=name, kind=kind)
    if case.get("processes"):
        outs = []
        for _ in range(2):
            p = subprocess.run([sys.executable, "-W", "ignore", "-c", PEEK, kind], capture_output=True, text=True, timeout=600)
            outs.append(p.stdout.strip().splitlines()[-1] if p.stdout.strip() else f"rc={p.returncode} {p.stderr[-200:]}")
        mon.check(outs[0] != outs[1] and outs[0].startswith("("), "two-processes-draw-different-numbers", a=outs[0][:120], b=outs[1][:120])
        mon.count("process_pairs")
    mon.nontrivial(True)


# -------------------------------------------------------------------------------------------------
def run_fork(case, ctx, mon):
    """A process holding a used log sketch forks; parent and child both go on adding.  The buffered draws are inherited, but every
    batch replenished after the fork must be new in each process (identical replenished batches = the same draws served twice)."""
    import hashlib
    import json
    import select
    import signal

    kind = case["kind"]
    s_ = mk(kind, 10**6 if kind == "log8" else 2**32 - 1, 0)
    for _ in range(3000):
        s_.add(b"k")

    def batches(n):
        out, last = [], None
        for _ in range(n):
            s_.add(b"k")
            h = hashlib.md5(np.asarray(s_.rand_nums).tobytes()).hexdigest()[:12]
            if h != last:
                out.append(h)
                last = h
        return out

    rfd, wfd = os.pipe()
    pid = os.fork()
    if pid == 0:
        try:
            os.close(rfd)
            os.write(wfd, json.dumps(batches(case["adds"])).encode())
        finally:
            os._exit(0)
    os.close(wfd)
    mine = batches(case["adds"])
    buf = b""
    ready, _, _ = select.select([rfd], [], [], 120)
    if ready:
        while True:
            chunk = os.read(rfd, 65536)
            if not chunk:
                break
            buf += chunk
    else:
        os.kill(pid, signal.SIGKILL)
    os.close(rfd)
    os.waitpid(pid, 0)
    if not buf:
        mon.inconclusive.append("forked child did not report its draw batches within 120 s")
        return
    child = json.loads(buf.decode())
    common_later = sorted(set(mine[1:]) & set(child[1:]))
    mon.check(len(mine) >= 3 and len(child) >= 3, "harness:both-processes-replenished-at-least-twice", parent=len(mine), child=len(child))
    mon.check(not common_later, "batches-replenished-after-a-fork-are-new-in-each-process", shared_batches=common_later[:4], parent=mine[:5], child=child[:5], kind=kind)
    mon.count("fork_cases")
    mon.count("batches_replenished_after_fork", len(mine) + len(child) - 2)
    mon.nontrivial(True)


def gen_cases(ctx):
    rng = ctx.rng("cases")
    q = ctx.quick
    sh, ns = ctx.shard, ctx.nshards
    cases = []
    # exactness inside the reserved range while other threads are inside long kernel calls on the same / on other sketches (round 8, C06-N)
    for kind in ("log16", "log8"):
        for rep in range(1 if q else 3):
            cases.append({"type": "adder_vs_readers", "kind": kind, "adds": 25000, "readers": 3, "seed": 4000 + rep + 17 * sh})
            cases.append({"type": "threads_own", "kind": kind, "threads": 6, "seed": 5000 + rep + 17 * sh})
    for kind in ("log8", "log16"):
        for mc, nr in GRID[kind]:
            cases.append({"type": "reserved", "kind": kind, "max_count": mc, "num_reserved": nr, "key": hx(key_family(rng, 1, 1, 8, alias=False)[0]),
                          "seed": int(rng.integers(0, 2**31))})
            umax = UMAX[kind]
            if kind == "log8":
                cases.append({"type": "placed", "kind": kind, "max_count": mc, "num_reserved": nr, "lo": 0, "hi": umax, "stride": 1})
            elif q:
                off = int(rng.integers(0, 37))
                cases.append({"type": "placed", "kind": kind, "max_count": mc, "num_reserved": nr, "lo": off, "hi": umax, "stride": 37})
                cases.append({"type": "placed", "kind": kind, "max_count": mc, "num_reserved": nr, "lo": max(0, nr - 3), "hi": nr + 40, "stride": 1})
                cases.append({"type": "placed", "kind": kind, "max_count": mc, "num_reserved": nr, "lo": umax - 40, "hi": umax, "stride": 1})
            else:
                for a in range(0, 65536, 8192):
                    cases.append({"type": "placed", "kind": kind, "max_count": mc, "num_reserved": nr, "lo": a, "hi": a + 8191, "stride": 1})
    law = [("log8", 2**32 - 1, 15), ("log8", 300, 0), ("log16", 70000, 5) if False else ("log8", 1000, 15), ("log16", 2**32 - 1, 0), ("log16", 10**6, 100)]
    for kind, mc, nr in law:
        for N in ((40, 600, 3000) if kind == "log8" else (300, 4000)):
            cases.append({"type": "law", "kind": kind, "max_count": mc, "num_reserved": nr, "N": N, "T": 20000 if q else 100000})
    for kind, mc, nr in (("log8", 2**32 - 1, 15), ("log16", 2**32 - 1, 0), ("log16", 70000, 5)):
        for via in ("add_ngram_short", "add_ngram_windows", "update_list", "update_dict", "update_ngram"):
            cases.append({"type": "law", "kind": kind, "max_count": mc, "num_reserved": nr, "N": 240, "T": 1500 if q else 20000, "via": via})
    for i in range(60 if q else 200):
        from .. import ops

        kind = ("log8", "log16")[i % 2]
        mc, nr = pick(rng, GRID[kind])
        if kind == "log8" and mc > 5000:
            mc = 5000
        cfg = {"kind": kind, "width": int(rng.integers(1, 5)), "depth": int(rng.integers(1, 4)), "max_count": mc, "num_reserved": min(nr, 40)}
        keys = key_family(rng, 5, 0, 6)
        evs = []
        for _ in range(int(rng.integers(5, 30))):
            if rng.random() < 0.15:
                a = int(rng.integers(0, 2))
                evs.append(["merge", a, 1 - a])
            else:
                evs.append([int(rng.integers(0, 2)), ops.gen_op(rng, keys, max_value=200, big=0, zero=0.05)])
        if i % 3 == 0:
            # bulk adds far beyond 16 bits on keys still inside the reserved range (the kernel loops once per unit,
            # and stops at the ceiling, so this stays cheap for small max_count)
            for _ in range(3):
                v = pick(rng, [65536, 65536 + int(rng.integers(0, nr + 2)), 2**17, 2**17 + 3, 10**5, 2**16 - 1, 2**20 + int(rng.integers(0, 40))])
                evs.insert(int(rng.integers(0, len(evs) + 1)), [int(rng.integers(0, 2)), ["add", hx(keys[int(rng.integers(0, len(keys)))]), v]])
        cases.append({"type": "lower", "cfg": cfg, "events": evs})
    cases.append({"type": "fork", "kind": "log8", "adds": 20000})
    cases.append({"type": "fork", "kind": "log16", "adds": 20000})
    cases.append({"type": "refill", "kind": "log8", "R": 25 if q else 250, "processes": True})
    cases.append({"type": "refill", "kind": "log16", "R": 25 if q else 250, "processes": False})
    for i, c in enumerate(cases):
        if q or i % ns == sh:
            yield c
    if q:
        return
    while True:  # thorough: keep sampling the law with fresh trials and other totals
        kind, mc, nr = pick(rng, law)
        yield {"type": "law", "kind": kind, "max_count": mc, "num_reserved": nr, "N": int(rng.integers(nr + 2, 5000)), "T": 100000, "rep": int(rng.integers(0, 2**31))}


def run_threads_case(case, ctx, mon):
    from .. import thread_common

    (thread_common.run_own_sketches if case["type"] == "threads_own" else thread_common.run_adder_vs_readers)(case, mon)


def run_case(case, ctx, mon):
    {"threads_own": run_threads_case, "adder_vs_readers": run_threads_case, "reserved": run_reserved, "placed": run_placed, "law": run_law, "lower": run_lower, "refill": run_refill, "fork": run_fork}[case["type"]](case, ctx, mon)


def run(ctx, mon):
    run_cases(ctx, mon, gen_cases(ctx), run_case)
    mon.extra(exhaustive=False, exhaustive_part="placed draws: every log8 counter value on both sides of the decision boundary for every grid configuration (log16: every value in the thorough tier)")


def replay(case, ctx, mon):
    run_case(case, ctx, mon)


def floors(mon, ctx):
    mon.floor("batches replenished after a fork (parent + child)", mon.counters["batches_replenished_after_fork"], 8)
    for mc, nr in GRID["log8"]:
        mon.floor(f"log8 counter values placed for {mc}/{nr}", len(mon.classes[f"placed:log8:{mc}/{nr}"]), 256)
    mon.floor("log16 counter values placed", mon.counters["placed_counter_values:log16"], 5000)
    mon.floor("refills observed", mon.counters["refills_observed"], 20)
    mon.floor("configurations compared with the Markov chain", len(mon.classes["law_cfg"]), 3)
    mon.floor("reserved-range cases", mon.counters["reserved_cases"], 10)
    mon.floor("lower-bound histories", mon.counters["lower_bound_histories"], 30)
    mon.floor("process pairs", mon.counters["process_pairs"], 1)
    mon.floor("entry points x log types compared with the chain", len(mon.classes["law_via"]), 12)
