"""C07 - the HyperLogLog estimate stays within the HLL++ error envelope of the truth."""
from __future__ import annotations

import math

import numpy as np

from .. import state
from ..common import pick, run_cases, sk

ID = "C07"
LEVEL = "exploration"
TECHNIQUE = "statistical envelope monitor: distinct random keys are added incrementally to real sketches and query() is read at every point of a cardinality grid incl. the regime switch points; small n is judged by an occupancy (linear counting) bound, larger n by k*1.04/sqrt(m) with k = 9"
RULE = ("case = (p, seed, key stream): n runs over a log grid from 0 to 40*2^p (24*2^p for p >= 13 in the quick tier) plus "
        "threshold[p]*{0.9,0.97,1,1.03,1.1} and 5m*{0.9,...,1.1}; each grid point is one envelope evaluation; non-trivial = the stream "
        "went past the linear-counting regime; distinct = by (p, seed, stream); thorough tier: one p=16 stream of 5.6*10^8 distinct keys "
        "(12-byte windows of random 40 MB strings through add_ngram), evaluated every 4*10^7")
ASSUMPTIONS = ["keys are 8 random bytes each (distinct by construction); different seeds give independent hash functions",
               "k = 9: with the measured sd <= 1.11 of the normalised error a correct implementation fails a run with probability < 1e-9",
               "this is a sanity envelope (a wrong rank, table row or alpha moves the estimate by several percent); exact agreement with the estimator is C17"]
LEVEL_TEXT = ("Every p in 7..16 is driven through the linear-counting, bias-corrected and raw regimes and across both switch points with "
              "tens (quick) to hundreds (thorough) of independent hash seeds per p; every grid point is one evaluation of the statement's "
              "envelope.")
LEVEL_NOTE = "occupancy bound for small n uses a 1e-13 binomial quantile of lost registers; nothing about the estimator's internals is assumed"
BUDGET = {"quick": 90, "thorough": 480}
SHARDS = {"quick": 1, "thorough": 16}
K = 9.0


def log_binom_tail(n, q, c):
    """log P(Bin(n, q) >= c), summed exactly in log space (n up to ~1e5)."""
    if c <= 0:
        return 0.0
    if q <= 0:
        return -1e300
    terms = []
    lq, l1q = math.log(q), math.log1p(-q) if q < 1 else -1e300
    for j in range(c, min(n, c + 400) + 1):
        terms.append(math.lgamma(n + 1) - math.lgamma(j + 1) - math.lgamma(n - j + 1) + j * lq + (n - j) * l1q)
    mx = max(terms)
    return mx + math.log(sum(math.exp(t - mx) for t in terms))


_CMAX = {}


def c_max(n, m):
    """Smallest c with P(#keys landing on an occupied register >= c) <= 1e-13 (dominated by Bin(n, n/m))."""
    key = (n, m)
    if key in _CMAX:
        return _CMAX[key]
    q = min(1.0, n / m)
    c = 0
    lim = math.log(1e-13)
    while c <= n and log_binom_tail(n, q, c) > lim:
        c += 1
    _CMAX[key] = c
    return c


def grid(p, top_mult, threshold, dense=False):
    m = 1 << p
    if dense:
        # every m/256 keys up to 6.5m: each of the 200 table intervals (about m/40 keys wide) is hit about six times
        step = max(1, m // 256)
        return list(range(int(0.5 * threshold) // step * step, int(6.5 * m), step))
    pts = {0, 1, 2, 3, 5, 8, 13, 21, 34}
    x = 40.0
    while x < top_mult * m:
        pts.add(int(x))
        x *= 1.18
    pts.add(int(top_mult * m))
    for f in (0.9, 0.97, 1.0, 1.03, 1.1):
        pts.add(int(threshold * f))
        pts.add(int(5 * m * f))
    return sorted(t for t in pts if t <= top_mult * m)


def run_case(case, ctx, mon):
    s = sk()
    p, seed = case["p"], case["seed"]
    m = 1 << p
    pt = case.get("p_type")
    mk = lambda: state.maybe_relayout(s.HyperLogLog(getattr(np, pt)(p) if pt else p, seed))  # noqa: E731
    h = mk()
    n_parts = int(case.get("parts", 1))
    parts = [mk() for _ in range(n_parts)] if n_parts > 1 else None
    if parts:
        mon.count("streams_split_over_several_sketches_and_merged")
    thr = float(h.threshold)
    rng = np.random.default_rng(case["stream"])
    pts = grid(p, case["top_mult"], thr, dense=bool(case.get("dense")))
    if case.get("dense"):
        mon.count("dense_streams")
    env = K * 1.04 / math.sqrt(m)
    n = 0
    regimes = set()
    chunk = 1 << 16
    add = h.add
    turn = 0
    for target in pts:
        while n < target:
            k = min(chunk, target - n)
            buf = rng.integers(0, 256, k * 8, dtype=np.uint8).tobytes()
            if parts:
                # the key set is spread over several sketches (as shards of a stream are); the estimate is read off their merge
                add = parts[turn % n_parts].add
                turn += 1
            # make keys distinct by construction: stream id and running index are part of the key
            for i in range(k):
                add(buf[8 * i: 8 * i + 8] + (n + i).to_bytes(5, "little"))
            n += k
        if parts:
            h = mk()
            for part in parts:
                mon.api(h.merge, part)
        q = float(h.query())
        zeros = int(m - np.count_nonzero(h.registers))
        if zeros > 0:
            lc = m * math.log(m / zeros)
            regime = "linear-counting" if lc <= thr else "bias-corrected-with-zero-registers"
        else:
            regime = "no-zero-registers"
        regimes.add(regime)
        mon.seen("regime", f"p{p}:{regime}")
        det = dict(p=p, seed=seed, n=n, estimate=q, regime=regime, stream=case["stream"])
        if n == 0:
            mon.check(q == 0.0, "empty-sketch-estimates-exactly-0.0", **det)
            continue
        if not math.isfinite(q):
            mon.check(False, "estimate-is-finite", **det)
        cm = c_max(n, m) if n <= 20000 and n < m else None
        if cm is not None and (cm + 1) > 0.5 * env * n:
            # small n: the estimate is linear counting on between n - c_max and n occupied registers
            hi = m * math.log(m / (m - n)) if n < m else float("inf")
            lo_occ = max(0, n - cm)
            lo = m * math.log(m / (m - lo_occ)) if lo_occ > 0 else 0.0
            mon.check(q <= hi * (1 + 1e-12) + 1e-9, "small-n:estimate<=linear-counting(n)", bound=hi, **det)
            mon.check(q >= lo * (1 - 1e-12) - 1e-9, "small-n:estimate>=linear-counting(n-c_max)", bound=lo, c_max=cm, **det)
            mon.count("small_n_evaluations")
        else:
            rel = abs(q - n) / n
            mon.check(rel <= env, "relative-error<=k*1.04/sqrt(m)", relative_error=rel, envelope=env, normalised=rel / (1.04 / math.sqrt(m)), **det)
            mon.count("envelope_evaluations")
            mon.extra(**{"max_normalised_error_seen": 0.0})
            cur = mon._extra.get("max_normalised_error_list", [])
            z = rel / (1.04 / math.sqrt(m))
            if len(cur) < 50 and z > 3.0:
                cur.append([p, n, round(z, 2)])
                mon._extra["max_normalised_error_list"] = cur
    mon.count("streams")
    mon.count("adds", n)
    mon.seen("p", p)
    mon.nontrivial(len(regimes) >= 2)


def run_huge(case, ctx, mon):
    """Hundreds of millions of distinct keys in one p=16 sketch (thorough tier): the 12-byte windows of pseudo-random 40 MB strings
    fed through add_ngram are distinct up to a collision probability of ~1e-12 for the whole stream."""
    s = sk()
    p, seed = case["p"], case["seed"]
    m = 1 << p
    h = s.HyperLogLog(p, seed)
    rng = np.random.default_rng(case["stream"])
    env = K * 1.04 / math.sqrt(m)
    n = 0
    for _ in range(case["chunks"]):
        buf = rng.bytes(case["chunk_bytes"])
        mon.api(h.add_ngram, buf, 12)
        n += len(buf) - 11
        q = float(h.query())
        rel = abs(q - n) / n
        mon.check(math.isfinite(q) and rel <= env, "relative-error<=k*1.04/sqrt(m)", relative_error=rel, envelope=env, p=p, seed=seed, n=n, estimate=q,
                  regime="hundreds of millions of distinct keys")
        mon.count("huge_cardinality_evaluations")
    mon._extra["largest_cardinality_reached"] = max(mon._extra.get("largest_cardinality_reached", 0), n)
    mon.nontrivial(True)


def gen_cases(ctx):
    rng = ctx.rng("cases")
    q = ctx.quick
    rep = 0
    if ctx.thorough and ctx.shard == ctx.nshards - 1:
        yield {"huge": True, "p": 16, "seed": int(rng.integers(0, 2**63)), "stream": int(rng.integers(0, 2**62)), "chunks": 14, "chunk_bytes": 40_000_000}
    while True:
        for p in range(7, 17):
            yield {"p": p, "seed": int(rng.integers(0, 2**63)) * 2 + 1, "stream": int(rng.integers(0, 2**62)), "top_mult": 6.5, "dense": True}
            if q:
                n_seeds = 8 if p <= 10 else (4 if p <= 12 else 1)
                # every register must fill for the third regime to be observed: at n = 24 m the chance that one of 2^16 registers is
                # still empty is m * exp(-24) = 2.5e-6 (at 16 m it was 0.7 %, and one seed in a hundred came back inconclusive)
                top = 40 if p <= 12 else 24
            else:
                n_seeds = 4 if p <= 12 else 1
                top = 40
            for _ in range(n_seeds):
                seed = pick(rng, [0, 1, 2**32, 2**63, 2**64 - 1]) if rng.random() < 0.2 else int(rng.integers(0, 2**63)) * 2 + int(rng.integers(0, 2))
                yield {"p": p, "seed": seed, "stream": int(rng.integers(0, 2**62)), "top_mult": top,
                       "p_type": pick(rng, [None, None, "uint8", "int8", "int16", "uint16", "int64"]), "parts": pick(rng, [1, 1, 2, 3])}
        rep += 1
        if q:
            return


def run_any(case, ctx, mon):
    (run_huge if case.get("huge") else run_case)(case, ctx, mon)


def run(ctx, mon):
    run_cases(ctx, mon, gen_cases(ctx), run_any)


def replay(case, ctx, mon):
    run_any(case, ctx, mon)


def floors(mon, ctx):
    for p in range(7, 17):
        for r in ("linear-counting", "bias-corrected-with-zero-registers", "no-zero-registers"):
            mon.floor(f"regime {r} at p={p}", int(f"p{p}:{r}" in mon.classes["regime"]), 1)
    mon.floor("streams split over several sketches and merged", mon.counters["streams_split_over_several_sketches_and_merged"], 5)
    mon.floor("envelope evaluations", mon.counters["envelope_evaluations"], 1000)
    mon.floor("small-n evaluations", mon.counters["small_n_evaluations"], 50)
    mon.floor("dense streams (one per precision)", mon.counters["dense_streams"], 10)
    if ctx.thorough:
        mon.floor("evaluations beyond 10^8 distinct keys", mon.counters["huge_cardinality_evaluations"], 10)
