"""C04 - heavy hitters always report a key that dominates one of its cells."""
from __future__ import annotations

import itertools
from collections import Counter

from .. import hh_common as H
from .. import state
from ..common import CAP, hx, pick, run_cases, sk, unhx

ID = "C04"
LEVEL = "exploration"
TECHNIQUE = "ghost-state monitor with a potential-function oracle: exact per-identity counts and probe-derived cell sharing give the bound max_r(2f - W_r); hh[key] and query(k, threshold) are compared with it after every event; exhaustive orderings/partitions of small weighted multisets at width 1"
RULE = ("case = history as in C03 (same hostile key family, up to 4 sketches, random partitions and merge orders, save/load) restricted to "
        "totals below 2^32, or an exhaustive enumeration of all orderings and all 2-way partitions (both merge directions) of a weighted "
        "multiset of <= 6 elements in a width-1 depth-1 sketch; non-trivial = some key had a positive bound while sharing a cell with "
        "another identity; distinct = by case digest")
ASSUMPTIONS = ["checked only while no 32-bit saturation is possible (ghost total of the sketch < 2^32), as the statement says 'absent saturation'",
               "the bound is the Boyer-Moore potential argument re-derived for the code's exact tie rules; it demands nothing the algorithm does not promise"]
LEVEL_TEXT = ("After every event, for every added identity with positive bound: hh[key] >= bound; query(inf, t) contains it with at least "
              "that count for t in {default, 0, 1, bound}; a majority key is the first answer of query(1, 0) with count >= 2f - N. "
              "Width-1 orderings and partitions are enumerated exhaustively.")
LEVEL_NOTE = "cell sharing is observed on an empty probe sketch; thresholds above the bound are not required to report the key"
BUDGET = {"quick": 75, "thorough": 360}
SHARDS = {"quick": 1, "thorough": 16}
BOUNDSCHECK = True


def check_sketch(mon, s, ghost, cells, d, w, ids, cfg, ev):
    """All C04 clauses for one sketch whose true counts are `ghost` (Counter by identity)."""
    N = sum(ghost.values())
    if N >= CAP:
        mon.count("skipped:saturation-possible")
        return 0
    n_added = int(s.n_added())
    sums = [Counter() for _ in range(d)]
    for k, f in ghost.items():
        c = cells[k]
        for r in range(d):
            sums[r][c[r]] += f
    positive = 0
    full = {}
    for k in ids:
        f = ghost.get(k, 0)
        if f == 0:
            continue
        c = cells[k]
        bound = max(2 * f - sums[r][c[r]] for r in range(d))
        if bound <= 0:
            continue
        positive += 1
        got = int(s[k])
        mon.check(got >= bound, "hh[key]>=max_r(2f-W_r)", key=hx(k), got=got, bound=bound, true=f, ev=ev, cfg=cfg)
        phi_t = int(float(s.phi) * n_added)
        for t in (None, 0, 1, bound):
            eff = phi_t if t is None else t
            if bound < eff:
                continue
            tk = "default" if t is None else ("bound" if t == bound and t > 1 else str(t))
            if tk not in full or t == bound:
                res = mon.api(s.query, 10**9, t)
                full[tk] = dict((bytes(a), int(b)) for a, b in res)
            ans = full[tk]
            ok = k in ans and ans[k] >= bound
            mon.check(ok, "query(inf,t)-contains-dominating-key", key=hx(k), threshold=t, effective_threshold=eff, bound=bound,
                      reported=ans.get(k), ev=ev, cfg=cfg)
            mon.seen("threshold_kinds", tk)
        if 2 * f > N:
            res = mon.api(s.query, 1, 0)
            ok = len(res) == 1 and bytes(res[0][0]) == k and int(res[0][1]) >= 2 * f - N
            mon.check(ok, "majority-key-is-first-with-count>=2f-N", key=hx(k), true=f, N=N, answer=H.hh_pairs(res), ev=ev, cfg=cfg)
            mon.count("majority_keys_checked")
    mon.count("keys_with_positive_bound", positive)
    return positive


def hook(run, i, ev):
    p = check_sketch(run.mon, run.real[i], run.ghost[i], run.cells, run.d, run.w, run.added_ids, run.cfg, ev)
    if p and run.shared:
        run.positive_with_sharing = True
    # over-long keys answer for their identity
    s = run.real[i]
    for raw in run.raw_keys:
        if len(raw) > run.L:
            a = int(run.mon.api(s.__getitem__, raw))
            b = int(s[H.ident(raw, run.L)])
            run.mon.check(a == b, "hh[over-long key]==hh[its identity]", key=hx(raw), got=a, want=b, cfg=run.cfg)


def run_history(case, ctx, mon):
    r = H.Run(case, mon, hook)
    r.positive_with_sharing = False
    r.go()
    mon.nontrivial(r.positive_with_sharing)


# -------------------------------------------------------------------------------------------------
def gen_exhaustive(rng, ctx):
    n_sets = 3 if ctx.quick else 10
    for _ in range(n_sets):
        L = pick(rng, [1, 2, 4])
        keys = H.hh_keys(rng, 3, L)[:3]
        n_el = 5 if ctx.quick else 6
        elems = [[hx(keys[int(rng.integers(0, len(keys)))]), pick(rng, [1, 1, 2, 3, 5])] for _ in range(n_el)]
        yield {"type": "exhaustive", "max_key_len": L, "elements": elems}


def run_exhaustive(case, ctx, mon):
    L = case["max_key_len"]
    cfg = {"kind": "hh", "width": 1, "depth": 1, "max_key_len": L}
    elems = [(H.ident(unhx(k), L), int(v)) for k, v in case["elements"]]
    ghost = Counter()
    for k, v in elems:
        ghost[k] += v
    ids = list(ghost)
    cells = {k: (0,) for k in ids}
    n = len(elems)
    s = state.make(cfg)
    for perm in itertools.permutations(range(n)):
        s.lhh[:] = 0
        s.lhh_count[:] = 0
        s.key_lens[:] = 0
        s.n_added_records[:] = 0
        for i in perm:
            s.add(elems[i][0], elems[i][1])
        check_sketch(mon, s, ghost, cells, 1, 1, ids, cfg, ["perm", list(perm)])
    mon.count("exhaustive_orderings", len(list(itertools.permutations(range(n)))))
    for mask in range(1 << n):
        for direction in (0, 1):
            a, b = state.make(cfg), state.make(cfg)
            for i in range(n):
                (a if (mask >> i) & 1 else b).add(elems[i][0], elems[i][1])
            if direction == 0:
                a.merge(b)
                m = a
            else:
                b.merge(a)
                m = b
            check_sketch(mon, m, ghost, cells, 1, 1, ids, cfg, ["partition", mask, direction])
    mon.count("exhaustive_partitions", 2 << n)
    mon.count("exhaustive_multisets")
    mon.nontrivial(len(ids) > 1)


def gen_cases(ctx):
    rng = ctx.rng("cases")
    yield from gen_exhaustive(rng, ctx)
    for rep in range(2 if ctx.quick else 6):
        yield {"type": "threads", "threads": 8, "adds": 1500, "seed": int(rng.integers(0, 2**31))}
    yield H.zipf_case(rng, ctx)
    yield H.huge_list_case(rng)
    yield {"type": "hugekeys", "width": 2, "depth": 2, "max_key_len": 16, "lengths": [65535, 65536, 65541, 196609, 65552], "seed": int(rng.integers(0, 2**31))}
    yield {"type": "hugekeys", "width": 40000, "depth": 2, "max_key_len": 5, "lengths": [300, 70000], "seed": int(rng.integers(0, 2**31))}
    # scripted: an all-NUL key holding 97% of the stream (a packed integer 0) must be reported first
    yield {"type": "history", "cfg": {"kind": "hh", "width": 2, "depth": 2, "max_key_len": 4}, "n": 1,
           "events": [[0, ["add", "00000000", 97]], [0, ["add", "61", 2]], [0, ["add", "", 1]]]}
    n = 900 if ctx.quick else 10**9
    for _ in range(n):
        yield H.gen_history_case(rng, ctx, big=0.01, zero=0.05)


def run_zipf(case, ctx, mon):
    s, ghost, cells, ids = H.build_zipf(case, mon)
    cfg = case["cfg"]
    # check the 60 heaviest identities (the bound is positive only for keys that dominate a cell)
    top = [k for k, _ in ghost.most_common(60)]
    n = check_sketch(mon, s, ghost, cells, cfg["depth"], cfg["width"], top, cfg, "zipf-final")
    mon.count("zipf_realistic_cases")
    mon.nontrivial(n > 0)


def run_threads(case, ctx, mon):
    """Several Python threads add to ONE heavy-hitter sketch, each its own key with private cells: afterwards every key is
    reported with exactly its count (upper bound of C03 and lower bound of C04 coincide) and n_added() is the total."""
    import threading

    cfg = {"kind": "hh", "width": 64, "depth": 2, "max_key_len": 8}
    s = state.make(cfg)
    pr = H.prober(cfg)
    rng = __import__("numpy").random.default_rng(case["seed"])
    keys, used = [], [set(), set()]
    while len(keys) < case["threads"]:
        k = bytes(rng.integers(1, 256, 6, dtype="uint8"))
        c = pr.cells(k)
        if c[0] not in used[0] and c[1] not in used[1]:
            used[0].add(c[0])
            used[1].add(c[1])
            keys.append(k)
    n_adds = case["adds"]
    barrier = threading.Barrier(len(keys))

    def work(k):
        barrier.wait()
        for i in range(n_adds):
            s.add(k, 1)
            if i % 50 == 0:
                s[k]

    ts = [threading.Thread(target=work, args=(k,)) for k in keys]
    for t in ts:
        t.start()
    for t in ts:
        t.join()
    for k in keys:
        mon.check(int(s[k]) == n_adds, "threads:key-with-private-cells-counted-exactly", key=hx(k), got=int(s[k]), want=n_adds)
    mon.check(int(s.n_added()) == n_adds * len(keys), "threads:n_added==total", got=int(s.n_added()), want=n_adds * len(keys))
    got = {bytes(a): int(c) for a, c in s.query(10**9, 1)}
    mon.check(got == {k: n_adds for k in keys}, "threads:query-reports-every-key-exactly", got_n=len(got), want_n=len(keys))
    mon.count("thread_stress_cases")
    mon.nontrivial(True)


def run_hugekeys(case, ctx, mon):
    """A majority key of 64 KiB and more (its identity is its first max_key_len bytes), delivered through add, update(list),
    update(tuple), update(dict) and update(generator) among a few short keys; also shapes with more than 65536 counters."""
    import numpy as np

    rng = np.random.default_rng(case["seed"])
    L = case["max_key_len"]
    for n_bytes in case["lengths"]:
        cfg = {"kind": "hh", "width": case["width"], "depth": case["depth"], "max_key_len": L}
        hh = state.make(cfg)
        big = rng.bytes(n_bytes)
        ident = big[:L]
        others = [rng.bytes(int(rng.integers(1, 9))) for _ in range(5)]
        f = 0
        n_total = 0
        forms = [lambda ks: hh.update(list(ks)), lambda ks: hh.update(tuple(ks)), lambda ks: hh.update(k for k in ks),
                 lambda ks: hh.update({k: ks.count(k) for k in ks}), lambda ks: [hh.add(k) for k in ks]]
        for r in range(25):
            batch = [big] * 4 + [others[int(rng.integers(0, 5))]]
            rng.shuffle(batch)
            mon.api(forms[r % len(forms)], batch)
            f += 4
            n_total += 5
        bound = 2 * f - n_total
        got = int(hh[ident])
        det = dict(key_length=n_bytes, cfg=cfg, f=f, N=n_total)
        mon.check(bound <= got <= f, "hh[key]>=max_r(2f-W_r)", got=got, bound=bound, **det)
        mon.check(int(hh[big]) == got, "hh[long key]==hh[its first max_key_len bytes]", got=int(hh[big]), want=got, **det)
        res = mon.api(hh.query, 3, bound)
        mon.check(any(bytes(k) == ident for k, _c in res), "query(inf,t)-contains-dominating-key", answer=H.hh_pairs(res)[:4], **det)
        added = {ident} | {o[:L] for o in others}
        for k, c in res:
            mon.check(bytes(k) in added, "query-pair:key-was-added", key=hx(bytes(k))[:40], count=int(c), **det)
        mon.check(int(hh.n_added()) == n_total, "n_added==stream-length", got=int(hh.n_added()), **det)
        mon.count("huge_key_streams")
        mon.seen("huge_key_length", n_bytes)
    mon.nontrivial(True)


def run_case(case, ctx, mon):
    if case["type"] == "hugekeys":
        return run_hugekeys(case, ctx, mon)
    if case["type"] == "threads":
        return run_threads(case, ctx, mon)
    if case["type"] == "zipf":
        return run_zipf(case, ctx, mon)
    if case["type"] == "history":
        run_history(case, ctx, mon)
    else:
        run_exhaustive(case, ctx, mon)


def run(ctx, mon):
    state.fast_del(True)
    run_cases(ctx, mon, gen_cases(ctx), run_case)
    mon.extra(exhaustive=False, exhaustive_part="all orderings and all 2-way partitions (both merge directions) of weighted multisets of 5-6 elements, width 1, depth 1")


def replay(case, ctx, mon):
    state.fast_del(True)
    run_case(case, ctx, mon)


def floors(mon, ctx):
    mon.floor("histories with a shared cell", mon.counters["histories_with_shared_cell"], 50)
    mon.floor("histories with an all-NUL key", mon.counters["histories_with_all_nul_key"], 10)
    mon.floor("merges", mon.counters["merges"], 20)
    mon.floor("keys with positive bound checked", mon.counters["keys_with_positive_bound"], 30)
    mon.floor("majority keys checked", mon.counters["majority_keys_checked"], 5)
    mon.floor("exhaustive multisets", mon.counters["exhaustive_multisets"], 3)
    mon.floor("majority keys of 64 KiB and more", len([x for x in mon.classes["huge_key_length"] if x >= 65536]), 4)
    mon.floor("threshold kinds", len(mon.classes["threshold_kinds"]), 4)
