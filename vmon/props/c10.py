"""C10 - save/load reproduces the sketch exactly, for every sketch type."""
from __future__ import annotations

import os

import numpy as np

from .. import ops, state
from ..common import pick, hx, key_family, rand_key, run_cases, sk, unhx

ID = "C10"
LEVEL = "exploration"
TECHNIQUE = "state-equality + lock-step differential monitor: original and reloaded sketch (class loader / module load(), shared_memory off / on) are compared on every documented parameter, array and query, then driven by the same further operations (log types under identical draws) through save->load->continue chains"
RULE = ("case = (class, configuration incl. width/depth 1, non-default max_count/num_reserved/phi, seeds >= 2^63; random history; loader "
        "variant; chain depth <= 4; continuation operations); non-trivial = the saved sketch was non-empty and the continuation changed "
        "it again; distinct = by case digest; also: a quarter of all saves are followed by 'another sketch overwrites the file, this sketch "
        "saves again unchanged' before the load; dotted file names sharing a stem; 4 threads saving 4 sketches into one directory at once "
        "(6-20 rounds per class)")
ASSUMPTIONS = ["log sketches: draws are equalised by copying rand_nums/rand_ptr and re-seeding Numba's generator before each side's step",
               "n_records is set through the documented n_added_records attribute (as helpers.parallel_add does)"]
LEVEL_TEXT = ("All five classes x {class loader, module-level load()} x {shared_memory off, on}: class, parameters, arrays, every query, "
              "n_added/n_records, mergeability with the original and identical evolution under further random operations, over chains "
              "of up to 4 save/load generations; loader dispatch and cross-type rejection are enumerated.")
LEVEL_NOTE = "equality is judged on the documented public state; private caches are exercised through query() only"
BUDGET = {"quick": 75, "thorough": 300}
SHARDS = {"quick": 1, "thorough": 16}
BOUNDSCHECK = True
SHM_LEAK_IS_VIOLATION = False


def gen_cfg(rng, kind):
    one = rng.random() < 0.15
    if kind == "linear":
        return {"kind": kind, "width": 1 if one else int(rng.integers(1, 40)), "depth": 1 if rng.random() < 0.2 else int(rng.integers(1, 9))}
    if kind == "log16":
        return {"kind": kind, "width": 1 if one else int(rng.integers(1, 40)), "depth": 1 if rng.random() < 0.2 else int(rng.integers(1, 6)),
                "max_count": pick(rng, [70000, 10**6, 2**32 - 1, 2**32 + 12345, 2**53 + 1, 2**63, 2**63 + 12345, 2**64 - 1]),
                "num_reserved": pick(rng, [0, 1, 77, 1023, 5000])}
    if kind == "log8":
        return {"kind": kind, "width": 1 if one else int(rng.integers(1, 40)), "depth": 1 if rng.random() < 0.2 else int(rng.integers(1, 6)),
                "max_count": pick(rng, [300, 10**4, 10**6, 2**32 - 1, 2**32 + 12345, 2**53 + 1, 2**63, 2**63 + 12345, 2**64 - 1]),
                "num_reserved": pick(rng, [0, 1, 15, 40, 100])}
    if kind == "hh":
        cfg = {"kind": kind, "width": 1 if one else int(rng.integers(1, 12)), "depth": 1 if rng.random() < 0.2 else int(rng.integers(1, 5)),
               "max_key_len": pick(rng, [1, 2, 3, 8, 16, 33])}
        if rng.random() < 0.5:
            w_ = cfg["width"]
            cfg["phi"] = pick(rng, [0.5, 0.013, 1e-6, 0.9999999, min(1.0, (1.0 / w_) * (1 + 5e-6)), (1.0 / w_) * (1 - 3e-6), 1.0 / w_])
        return cfg
    return {"kind": "hll", "p": int(rng.integers(7, 17)) if rng.random() < 0.3 else int(rng.integers(7, 11)),
            "seed": pick(rng, [0, 1, 2**32, 2**63, 2**63 + 12345, 2**64 - 1, int(rng.integers(0, 2**62))])}


def gen_case(rng, ctx, kind):
    cfg = gen_cfg(rng, kind)
    keys = key_family(rng, int(rng.integers(2, 10)), 0, 12)
    maxv = 300 if kind in ("log16", "log8") else None
    hist = [ops.gen_op(rng, keys, max_value=maxv, big=0.1) for _ in range(int(rng.integers(0, 25)))]
    gens = []
    for g in range(int(rng.integers(1, 5))):
        gens.append({"shm": bool(rng.random() < 0.5), "via_module": bool(kind in state.CMS_KINDS and rng.random() < 0.5),
                     "cont": [ops.gen_op(rng, keys, max_value=maxv, big=0.1) for _ in range(int(rng.integers(1, 10)))]})
    return {"type": "roundtrip", "cfg": cfg, "history": hist, "n_records": pick(rng, [0, 17, 2**40, 2**53 + 1, 2**63 + 12345, 2**64 - 1]),
            "n_added_bump": pick(rng, [0, 0, 2**53 + 1, 2**63 + 7]), "generations": gens,
            "strangers": [hx(rand_key(rng, 0, 6)) for _ in range(2)], "draw_seed": int(rng.integers(1, 2**30))}


def compare(mon, a, b, kind, universe, where, cfg):
    d = state.snap_diff(state.snapshot(a, kind), state.snapshot(b, kind))
    mon.check(type(a) is type(b), "loaded-sketch-has-the-same-class", a=type(a).__name__, b=type(b).__name__, where=where, cfg=cfg)
    mon.check(not d, "loaded-state==saved-state", differs_in=d, where=where, cfg=cfg)
    if kind in state.CMS_KINDS:
        for k in universe:
            qa, qb = a.query(k), b.query(k)
            mon.check(qa == qb and a[k] == b[k], "query-equal", key=hx(k), a=float(qa), b=float(qb), where=where, cfg=cfg)
        mon.check(int(a.n_added()) == int(b.n_added()) and int(a.n_records()) == int(b.n_records()), "n_added/n_records-equal",
                  a=[int(a.n_added()), int(a.n_records())], b=[int(b.n_added()), int(b.n_records())], where=where, cfg=cfg)
    elif kind == "hh":
        for k in universe:
            mon.check(int(a[k]) == int(b[k]), "query-equal", key=hx(k), a=int(a[k]), b=int(b[k]), where=where, cfg=cfg)
        for kq, t in ((10**9, None), (10**9, 0), (2, 1), (1, None)):
            ra, rb = a.query(kq, t), b.query(kq, t)
            mon.check(sorted(ra) == sorted(rb) and [c for _, c in ra] == [c for _, c in rb], "hh-query(k,threshold)-equal", k=kq, threshold=t,
                      a=[[hx(x), int(c)] for x, c in ra][:6], b=[[hx(x), int(c)] for x, c in rb][:6], where=where, cfg=cfg)
        mon.check(int(a.n_added()) == int(b.n_added()) and int(a.n_records()) == int(b.n_records()), "n_added/n_records-equal",
                  where=where, cfg=cfg)
    else:
        qa, qb = float(a.query()), float(b.query())
        mon.check(qa == qb, "query-equal", a=qa, b=qb, where=where, cfg=cfg)


def run_roundtrip(case, ctx, mon):
    cfg = case["cfg"]
    kind = cfg["kind"]
    is_log = kind in ("log16", "log8")
    orig = state.make(cfg)

    def peek(sk_, n):
        # read-only questions in the middle of a history (a cached answer must never stand in for the current state)
        if (case["draw_seed"] + n) % 3:
            return
        if kind == "hll":
            sk_.query()
        elif kind == "hh":
            sk_.query(3)
        else:
            sk_.query(b"peek")

    for n_h, op in enumerate(case["history"]):
        mon.api(ops.apply_op, orig, op)
        peek(orig, n_h)
    if kind != "hll":
        orig.n_added_records[1] = np.uint64(case["n_records"])
        if case.get("n_added_bump"):
            # totals of this size are reached by a few dozen self-merges of a saturated sketch; set through the documented attribute
            orig.n_added_records[0] = np.uint64((int(orig.n_added_records[0]) + case["n_added_bump"]) % 2**64)
    all_ops = list(case["history"])
    for g in case["generations"]:
        all_ops += g["cont"]
    universe = ops.universe_of(all_ops, extra=[unhx(s) for s in case["strangers"]])[:40]
    nonempty = any(np.any(getattr(orig, a)) for a in state.ARRAYS[kind])
    changed_again = False
    cur = orig
    for gi, g in enumerate(case["generations"]):
        if kind == "hh" and (case["draw_seed"] + gi) % 2 == 0:
            # whatever was asked last before save() must not leak into the loaded copy's answers
            cur.query([1, 3, 10**9][(case["draw_seed"] + gi) % 3], [1, 25, 2**32 - 1, 0][(case["draw_seed"] // 2 + gi) % 4])
            mon.count("hh_saved_right_after_a_non_default_threshold_query")
        loaded = mon.api(state.save_load, cur, kind, g["shm"], g["via_module"])
        where = f"generation {gi} shm={g['shm']} via_module={g['via_module']}"
        mon.count(f"loads:{kind}:shm={'on' if g['shm'] else 'off'}")
        if g["via_module"]:
            mon.count("loads_via_module_load")
        compare(mon, cur, loaded, kind, universe, where, cfg)
        # mergeable with the original (on a second copy so the lock-step pair stays untouched)
        twin = mon.api(state.save_load, cur, kind, False, False)
        try:
            twin.merge(cur)
            merged_ok, err = True, None
        except Exception as exc:  # noqa: BLE001
            merged_ok, err = False, f"{type(exc).__name__}: {exc}"
        mon.check(merged_ok, "loaded-merges-with-original", error=err, where=where, cfg=cfg)
        del twin
        # lock-step continuation
        if is_log:
            state.share_draws(cur, loaded)
        before = state.snap_digest(state.snapshot(cur, kind))
        for n_op, op in enumerate(g["cont"]):
            if is_log:
                state.numba_seed(case["draw_seed"] + 100 * gi + n_op)
            mon.api(ops.apply_op, cur, op)
            peek(cur, n_op)
            if is_log:
                state.numba_seed(case["draw_seed"] + 100 * gi + n_op)
            mon.api(ops.apply_op, loaded, op)
            d = state.snap_diff(state.snapshot(cur, kind), state.snapshot(loaded, kind))
            mon.check(not d, "evolves-identically-after-load", differs_in=d, op=op, where=where, cfg=cfg)
        compare(mon, cur, loaded, kind, universe, where + " after continuation", cfg)
        if state.snap_digest(state.snapshot(cur, kind)) != before:
            changed_again = True
        cur = loaded
        if gi >= 2:
            mon.count(f"chains_depth3:{kind}")
    mon.nontrivial(nonempty and changed_again)


def run_names(case, ctx, mon):
    """Several sketches saved under dotted names that share a stem (dated / numbered checkpoints): each file must load
    back to the sketch that was saved under that name."""
    import shutil
    import tempfile

    kind = case["kind"]
    d = tempfile.mkdtemp(prefix="vmon-names-", dir=os.environ.get("VERIF_TMP") or None)
    try:
        made = []
        for i, stem in enumerate(case["names"]):
            cfg = dict(case["cfg"])
            s_ = state.make(cfg)
            s_.add(b"k-%d" % i, i + 1)
            s_.add(b"shared", 10 * (i + 1))
            path = os.path.join(d, stem)
            mon.api(s_.save, path)
            made.append((stem, s_, path))
        for stem, s_, path in made:
            real = path if path.endswith(".npz") else path + ".npz"  # np.savez appends .npz when it is missing
            mon.check(os.path.exists(real), "save(name)-writes-name(.npz)", name=stem, files=sorted(os.listdir(d)))
            loader = {"hh": sk().HeavyHitters.load, "hll": sk().HyperLogLog.load}.get(kind, sk().countmin.load)
            got = mon.api(loader, real)
            dd = state.snap_diff(state.snapshot(s_, kind), state.snapshot(got, kind))
            mon.check(not dd, "file-saved-under-a-name-loads-back-to-that-sketch", name=stem, differs_in=dd, files=sorted(os.listdir(d)), kind=kind)
        mon.count("name_cases")
    finally:
        shutil.rmtree(d, ignore_errors=True)
    mon.nontrivial(True)


def run_concurrent_saves(case, ctx, mon):
    """Several threads of one process save their own sketches to their own files in one directory at the same time (a
    checkpointing service): every file must load back to the sketch that was saved under that name."""
    import shutil
    import tempfile
    import threading

    kind = case["kind"]
    n_thr, rounds = case["threads"], case["rounds"]
    d = tempfile.mkdtemp(prefix="vmon-conc-", dir=os.environ.get("VERIF_TMP") or None)
    try:
        sketches = []
        for i in range(n_thr):
            cfg = dict(case["cfg"])
            if i % 2 and kind in ("linear", "log16", "log8"):
                cfg["width"] = cfg["width"] * 40  # files of very different sizes are written side by side
            s_ = state.make(cfg)
            s_.add(b"k-%d" % i, i + 1)
            s_.add(b"shared", 10 * (i + 1))
            sketches.append((s_, cfg))
        errors = []
        loader = {"hh": sk().HeavyHitters.load, "hll": sk().HyperLogLog.load}.get(kind, sk().countmin.load)
        for r in range(rounds):
            barrier = threading.Barrier(n_thr)
            snaps = [state.snapshot(s_, kind) for s_, _cfg in sketches]

            def work(i, r=r, barrier=barrier):
                try:
                    barrier.wait(timeout=60)
                    sketches[i][0].save(os.path.join(d, f"sketch-{i}-{r}"))
                except Exception as exc:  # noqa: BLE001
                    errors.append(f"thread {i} round {r}: {type(exc).__name__}: {exc}")

            ts = [threading.Thread(target=work, args=(i,)) for i in range(n_thr)]
            for t in ts:
                t.start()
            for t in ts:
                t.join(120)
            mon.check(not errors, "concurrent-saves-to-different-files-all-succeed", errors=errors[:3], kind=kind)
            for i in range(n_thr):
                path = os.path.join(d, f"sketch-{i}-{r}.npz")
                mon.check(os.path.exists(path), "save(name)-writes-name(.npz)", name=os.path.basename(path), files=sorted(os.listdir(d))[:12])
                got = mon.api(loader, path)
                dd = state.snap_diff(snaps[i], state.snapshot(got, kind))
                mon.check(not dd, "file-saved-under-a-name-loads-back-to-that-sketch", name=os.path.basename(path), differs_in=dd, kind=kind,
                          how="saved while other threads saved other sketches into the same directory")
            for i, (s_, _cfg) in enumerate(sketches):
                s_.add(b"round-%d" % r, 1 + i)  # the next round saves a changed sketch
        stray = [f for f in os.listdir(d) if not f.startswith("sketch-")]
        mon.check(not stray, "no-stray-file-left-in-the-directory", stray=stray[:5])
        mon.count("concurrent_save_rounds", rounds)
        mon.seen("concurrent_save_kind", kind)
    finally:
        shutil.rmtree(d, ignore_errors=True)
    mon.nontrivial(True)


def run_many_cycles(case, ctx, mon):
    """One sketch object lineage through 150 save -> load generations with a small change in between (long-lived checkpointed
    state): the loaded sketch must equal the saved one every time, in lock-step with an ordinary sketch that is never saved."""
    cfg = case["cfg"]
    kind = cfg["kind"]
    rng = np.random.default_rng(case["seed"])
    live = state.make(cfg)
    keys = key_family(rng, 6, 0, 8)
    universe = list(keys)
    is_log = kind in ("log16", "log8")
    for g in range(case["cycles"]):
        op = ops.gen_op(rng, keys, max_value=40 if is_log else None, big=0.02, failing=False)
        mon.api(ops.apply_op, live, op)
        snap = state.snapshot(live, kind)
        loaded = mon.api(state.save_load, live, kind, bool(g % 7 == 3), bool(g % 2))
        d = state.snap_diff(snap, state.snapshot(loaded, kind), params=True)
        mon.check(not d, "loaded-state==saved-state", generation=g, differs_in=d, cfg=cfg, how="one lineage through many save/load generations")
        if kind in state.CMS_KINDS:
            for k in universe:
                if loaded.query(k) != live.query(k):
                    mon.check(False, "loaded-query==saved-query", generation=g, key=hx(k), cfg=cfg)
        del live
        live = loaded
    mon.count("save_load_generations_in_one_lineage", case["cycles"])
    mon.seen("many_cycles_kind", kind)
    mon.nontrivial(True)


def run_odd_states(case, ctx, mon):
    """States and parameters a user can legitimately reach but random histories do not: bookkeeping counters set to 0 under a
    filled table (n_added_records is a documented attribute), a table assigned on a fresh sketch, fractional float parameters
    (the constructors accept and truncate them), and a save through a symbolic link followed by a load of the real path."""
    import shutil
    import tempfile

    kind = case["kind"]
    rng = np.random.default_rng(case["seed"])
    cfg = dict(case["cfg"])
    loader = {"hh": sk().HeavyHitters.load, "hll": sk().HyperLogLog.load}.get(kind, sk().countmin.load)
    keys = key_family(rng, 5, 1, 8)
    # (a) filled table, bookkeeping zeroed
    if kind != "hll":
        s_ = state.make(cfg)
        for k in keys:
            s_.add(k, int(rng.integers(1, 9)))
        s_.n_added_records[:] = 0
        snap = state.snapshot(s_, kind)
        for shm in (False, True):
            got = mon.api(state.save_load, s_, kind, shm, False)
            d = state.snap_diff(snap, state.snapshot(got, kind))
            mon.check(not d, "loaded-state==saved-state", differs_in=d, cfg=cfg, how="n_added_records set to 0 under a filled table", shm=shm)
            del got
        mon.count("odd_states:zeroed_bookkeeping")
    # (b) fractional float parameters
    if kind in ("log16", "log8"):
        fcfg = dict(cfg, max_count=0.05 * 41234567.0, num_reserved=255 / 8 if kind == "log8" else 4000 / 3)
        try:
            f_ = state.make(fcfg)
        except Exception:  # noqa: BLE001  (a tree that refuses fractional parameters is fine)
            f_ = None
        if f_ is not None:
            for k in keys:
                f_.add(k, 2)
            got = mon.api(state.save_load, f_, kind, False, True)
            d = state.snap_diff(state.snapshot(f_, kind), state.snapshot(got, kind), params=True)
            mon.check(not d, "loaded-state==saved-state", differs_in=d, cfg={k: str(v) for k, v in fcfg.items()}, how="fractional float parameters")
            for x, y, name in ((got, f_, "loaded<-original"), (f_, got, "original<-loaded")):
                try:
                    x.merge(y)
                    raised = None
                except Exception as exc:  # noqa: BLE001
                    raised = f"{type(exc).__name__}: {exc}"
                mon.check(raised is None, "loaded-sketch-merges-with-the-original", raised=raised, direction=name, how="fractional float parameters")
            mon.count("odd_states:float_parameters")
    # (c) save through a symbolic link, load the real path
    d_ = tempfile.mkdtemp(prefix="vmon-link-", dir=os.environ.get("VERIF_TMP") or None)
    try:
        os.mkdir(os.path.join(d_, "store"))
        real = os.path.join(d_, "store", "sketch-v1.npz")
        link = os.path.join(d_, "current.npz")
        s1 = state.make(cfg)
        s1.add(keys[0], 5)
        s1.save(real)
        os.symlink(real, link)
        for k in keys:
            s1.add(k, 3)
        snap = state.snapshot(s1, kind)
        mon.api(s1.save, link)
        for path, name in ((real, "real path"), (link, "link")):
            got = mon.api(loader, path)
            dd = state.snap_diff(snap, state.snapshot(got, kind))
            mon.check(not dd, "loaded-state==saved-state", differs_in=dd, cfg=cfg, how=f"saved through a symbolic link, loaded through the {name}")
        stray = [f for f in os.listdir(d_) if f not in ("store", "current.npz")] + [f for f in os.listdir(os.path.join(d_, "store")) if f != "sketch-v1.npz"]
        mon.check(not stray, "no-stray-file-left-in-the-directory", stray=stray[:5])
        mon.count("odd_states:symlink_saves")
    finally:
        shutil.rmtree(d_, ignore_errors=True)
    mon.seen("odd_states_kind", kind)
    mon.nontrivial(True)


def run_rowpair(case, ctx, mon):
    """A table in which one row holds a larger counter than row 0 (two keys that share a counter only in that row, counted in
    different sketches, then merged) must survive save/load bit for bit, for every loader."""
    cfg = case["cfg"]
    kind = cfg["kind"]
    pr = state.NativeProber({k: cfg[k] for k in ("kind", "width", "depth")})
    pair = state.find_row_pair(pr, cfg["depth"], case["row"], np.random.default_rng(case["seed"]), tries=120)
    if pair is None:
        mon.count("rowpair_not_constructible")
        return
    a, b = state.make(cfg), state.make(cfg)
    a.add(pair[0], case["values"][0])
    b.add(pair[1], case["values"][1])
    a.merge(b)
    for shm in (False, True):
        for via in (False, True):
            c = mon.api(state.save_load, a, kind, shm, via)
            d = state.snap_diff(state.snapshot(a, kind), state.snapshot(c, kind))
            mon.check(not d, "loaded-state==saved-state", differs_in=d, where=f"row-pair table shm={shm} via_module={via}", cfg=cfg, values=case["values"])
            for k in pair:
                mon.check(c.query(k) == a.query(k), "query-equal", key=hx(k), a=float(a.query(k)), b=float(c.query(k)), where="row-pair table", cfg=cfg)
            del c
    mon.count("rowpair_cases")
    mon.nontrivial(True)


def run_dispatch(case, ctx, mon):
    """Module-level load() returns the class that wrote the file; class loaders reject other counter types."""
    s = sk()
    classes = {"linear": s.CountMinLinear, "log16": s.CountMinLog16, "log8": s.CountMinLog8}
    for kind in state.CMS_KINDS:
        cfg = {"kind": kind, "width": case["width"], "depth": case["depth"]}
        sketch = state.make(cfg)
        sketch.add(b"x", 3)
        path = state.tmp_path(".npz")
        try:
            sketch.save(path)
            got = mon.api(s.countmin.load, path)
            mon.check(type(got) is classes[kind], "load()-dispatches-to-writing-class", wrote=kind, got=type(got).__name__)
            for other, cls in classes.items():
                try:
                    obj = cls.load(path)
                    raised = None
                except Exception as exc:  # noqa: BLE001
                    raised = type(exc).__name__
                    obj = None
                if other == kind:
                    mon.check(raised is None and type(obj) is cls, "class-loader-accepts-own-files", kind=kind, raised=raised)
                else:
                    mon.check(raised is not None, "class-loader-rejects-other-counter-type", file=kind, loader=other,
                              returned=type(obj).__name__ if obj is not None else None)
                mon.count("dispatch_probes")
        finally:
            os.unlink(path)
    mon.nontrivial()


def gen_cases(ctx):
    rng = ctx.rng("cases")
    yield {"type": "dispatch", "width": 3, "depth": 2}
    yield {"type": "dispatch", "width": 1, "depth": 1}
    for r in range(1, 4):
        for vals in ((40000, 40000), (65535, 1), (200, 100), (2**24 - 1, 2)):
            yield {"type": "rowpair", "cfg": {"kind": "linear", "width": pick(rng, [3, 5, 8]), "depth": max(r + 1, 3)}, "row": r, "values": list(vals),
                   "seed": int(rng.integers(0, 2**31))}
        yield {"type": "rowpair", "cfg": {"kind": "log16", "width": 5, "depth": max(r + 1, 3), "max_count": 2**32 - 1, "num_reserved": 1023}, "row": r,
               "values": [200, 100], "seed": int(rng.integers(0, 2**31))}
    for kind in state.ALL_KINDS:
        cfg = {"kind": kind, "width": 5, "depth": 2, "max_key_len": 6, "p": 8, "seed": 3}
        yield {"type": "names", "kind": kind, "cfg": cfg, "names": ["daily.2024-01-01", "daily.2024-01-02", "ckpt.0", "ckpt.1", "ckpt.10.npz", "plain", "v1.2.npz"]}
    for kind in state.ALL_KINDS:
        cfg = {"kind": kind, "width": 64, "depth": 3, "max_key_len": 6, "p": 9, "seed": 3}
        yield {"type": "concurrent_saves", "kind": kind, "cfg": cfg, "threads": 4, "rounds": 6 if ctx.quick else 20}
    for kind in state.ALL_KINDS:
        cfg = {"kind": kind, "width": 7, "depth": 3, "max_key_len": 6, "p": 8, "seed": 5}
        yield {"type": "many_cycles", "cfg": cfg, "cycles": 150 if ctx.quick else 600, "seed": int(rng.integers(0, 2**31))}
    for kind in state.ALL_KINDS:
        cfg = {"kind": kind, "width": 9, "depth": 3, "max_key_len": 6, "p": 8, "seed": 5}
        yield {"type": "odd_states", "kind": kind, "cfg": cfg, "seed": int(rng.integers(0, 2**31))}
    # scripted corner: heavy hitters of width 1 (phi defaults to exactly 1.0) must reload
    yield {"type": "roundtrip", "cfg": {"kind": "hh", "width": 1, "depth": 2, "max_key_len": 4}, "history": [["add", "6161", 5], ["add", "62", 2]],
           "n_records": 3, "generations": [{"shm": False, "via_module": False, "cont": [["add", "6161", 1]]},
                                           {"shm": True, "via_module": False, "cont": [["add", "63", 9]]},
                                           {"shm": False, "via_module": False, "cont": [["add", "63", 1]]}],
           "strangers": ["00"], "draw_seed": 5}
    n = 400 if ctx.quick else 10**9
    for i in range(n):
        yield gen_case(rng, ctx, state.ALL_KINDS[i % 5])


def run_case(case, ctx, mon):
    if case["type"] == "rowpair":
        run_rowpair(case, ctx, mon)
    elif case["type"] == "names":
        run_names(case, ctx, mon)
    elif case["type"] == "dispatch":
        run_dispatch(case, ctx, mon)
    elif case["type"] == "concurrent_saves":
        run_concurrent_saves(case, ctx, mon)
    elif case["type"] == "many_cycles":
        run_many_cycles(case, ctx, mon)
    elif case["type"] == "odd_states":
        run_odd_states(case, ctx, mon)
    else:
        run_roundtrip(case, ctx, mon)


def run(ctx, mon):
    state.fast_del(True)
    state.numba_seed(1)
    run_cases(ctx, mon, gen_cases(ctx), run_case)


def replay(case, ctx, mon):
    state.fast_del(True)
    run_case(case, ctx, mon)


def floors(mon, ctx):
    for kind in state.ALL_KINDS:
        for shm in ("on", "off"):
            mon.floor(f"loads of {kind} with shared_memory {shm}", mon.counters[f"loads:{kind}:shm={shm}"], 5)
        mon.floor(f"chains of depth >= 3 for {kind}", mon.counters[f"chains_depth3:{kind}"], 1)
    mon.floor("loads through module-level load()", mon.counters["loads_via_module_load"], 10)
    mon.floor("kinds taken through 150+ save/load generations in one lineage", len(mon.classes["many_cycles_kind"]), 5)
    mon.floor("kinds with odd-state round trips (zeroed bookkeeping, float parameters, symbolic links)", len(mon.classes["odd_states_kind"]), 5)
    mon.floor("kinds saved concurrently by several threads", len(mon.classes["concurrent_save_kind"]), 5)
    mon.floor("dispatch probes", mon.counters["dispatch_probes"], 9)
