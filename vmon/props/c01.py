"""C01 - linear count-min: min(true, cap) <= estimate <= classic count-min value (capped), on every history."""
from __future__ import annotations

from collections import Counter

import numpy as np

from .. import ops, state
from ..common import CAP, hx, key_family, pick, rand_key, run_cases, sk, unhx

ID = "C01"
LEVEL = "exploration"
TECHNIQUE = "ghost-state monitor: exact per-key counters kept beside each real sketch (merge = sum, load = copy); two-sided invariant evaluated for every key of the universe after every event; cell sharing read off probe sketches; exhaustive DFS over small histories with state memoisation; thread stress with long kernel calls (several threads each filling their own sketch of one shape, compared with sequentially built twins)"
RULE = ("case = (width, depth, up to 4 sketches, event list of add/update/add_ngram/update_ngram/merge/save+load) with widths 1..64 "
        "(70% <= 3) and multiplicities incl. 0, values adjacent to 2^32-1 and 2^40; or one exhaustive enumeration of all event "
        "sequences up to a length bound over a 3-key alphabet on two sketches; non-trivial = two distinct keys of the case share a "
        "counter in some row, or a saturating event occurred; distinct = by case digest (exhaustive: distinct reached states are "
        "counted separately)")
ASSUMPTIONS = ["random histories: widths <= 64, depths <= 8, <= 4 sketches, <= 60 events; realistic cases: widths up to 2500 and one 70001 x 3 and one 5 x 300 table", "tightness of the upper bound is not checked, only the bound"]
LEVEL_TEXT = ("Both bounds of the statement are evaluated for every key of the universe (added keys plus never-added neighbours) after "
              "every single event of random histories, and on every node of an exhaustive small-scope enumeration; a key with a private "
              "cell must therefore be exact. Which counter a key owns is observed on an empty probe sketch, not computed.")
LEVEL_NOTE = "ghost truth in unbounded Python integers; probe sketch runs the same add path as the sketch under test"
BUDGET = {"quick": 75, "thorough": 360}
SHARDS = {"quick": 1, "thorough": 16}
BOUNDSCHECK = True

_PROBERS = {}


def prober(w, d):
    p = _PROBERS.get((w, d))
    if p is None:
        p = _PROBERS[(w, d)] = state.Prober({"kind": "linear", "width": w, "depth": d})
    return p


def gen_case(rng, ctx):
    r = rng.random()
    w = int(rng.integers(1, 4)) if r < 0.7 else int(rng.integers(4, 65))
    d = int(rng.integers(1, 9))
    n_sk = int(rng.integers(1, 5))
    keys = key_family(rng, int(rng.integers(2, 12)), 0, 64 if rng.random() < 0.2 else 10)
    n_ev = int(rng.integers(5, 61))
    events = ops.gen_multi_history(rng, keys, n_sk, n_ev, big=0.15, zero=0.05)
    if rng.random() < 0.6 and n_sk > 1:
        tree, _ = ops.final_merge_tree(rng, n_sk)
        events += tree
    strangers = [hx(rand_key(rng, 0, 8)) for _ in range(3)] + [hx(keys[0] + b"\0"), ""]
    return {"type": "history", "width": w, "depth": d, "n": n_sk, "events": events, "strangers": strangers}


def check_all(mon, sketch, ghost, universe, cells, w, d, ctx_ev):
    """The C01 invariant for every key of the universe on one sketch."""
    # per-row cell sums of true counts
    sums = [Counter() for _ in range(d)]
    for k, f in ghost.items():
        c = cells[k]
        for r in range(d):
            sums[r][c[r]] += f
    for k in universe:
        f = ghost.get(k, 0)
        lo = min(f, CAP)
        c = cells[k]
        hi = min(CAP, min(sums[r][c[r]] for r in range(d)))
        est = int(sketch.query(k))
        est2 = int(sketch[k])
        if not (lo <= est <= hi) or est2 != est:
            mon.check(est2 == est, "getitem==query", key=hx(k), query=est, getitem=est2, ev=ctx_ev)
            mon.check(lo <= est, "estimate>=min(true,cap)", key=hx(k), estimate=est, true=f, ev=ctx_ev, width=w, depth=d)
            mon.check(est <= hi, "estimate<=classic-count-min-value", key=hx(k), estimate=est, bound=hi, true=f, ev=ctx_ev,
                      width=w, depth=d)
    mon.tick("min(true,cap)<=estimate<=cell-sum-bound", len(universe))


def run_history(case, ctx, mon):
    w, d, n = case["width"], case["depth"], case["n"]
    cfg = {"kind": "linear", "width": w, "depth": d}
    real = [state.make(cfg) for _ in range(n)]
    ghost = [Counter() for _ in range(n)]
    pr = prober(w, d)
    all_ops = [e[1] for e in case["events"] if isinstance(e[0], int)] + [o for e in case["events"] if e[0] == "tmpmerge" for o in e[2]]
    universe = ops.universe_of(all_ops, extra=[unhx(s) for s in case["strangers"]])
    cells = {k: pr.cells(k) for k in universe}
    # non-triviality: some pair of *added* keys shares a cell
    added = ops.universe_of(all_ops)
    shared = any(len({cells[k][r] for k in added}) < len(added) for r in range(d)) if len(added) > 1 else False
    saturating = False
    for ev in case["events"]:
        if ev[0] == "merge":
            a, b = ev[1], ev[2]
            unequal = ghost[a] != ghost[b]
            mon.api(real[a].merge, real[b])
            ghost[a] = ghost[a] + ghost[b]
            mon.count("merges")
            if unequal:
                mon.count("merges_of_unequal_sketches")
            touched = [a]
        elif ev[0] == "saveload":
            i = ev[1]
            real[i] = mon.api(state.save_load, real[i], "linear", ev[2], ev[3])
            mon.count("saveloads")
            mon.count("saveloads_shm" if ev[2] else "saveloads_mem")
            touched = [i]
        elif ev[0] == "selfmerge":
            i = ev[1]
            for _ in range(ev[2]):
                mon.api(real[i].merge, real[i])
            ghost[i] = Counter({k: v * 2 ** ev[2] for k, v in ghost[i].items()})
            mon.count("self_merge_runs")
            touched = [i]
        elif ev[0] == "copy":
            i = ev[1]
            if not hasattr(real[i], "shm"):
                real[i] = mon.api(state.duplicate, real[i], ev[2])
                mon.count("copies:" + ev[2])
            touched = [i]
        elif ev[0] == "tmpmerge":
            # a temporary sketch is filled, merged in and dropped (its address may be reused by the next temporary)
            i = ev[1]
            tmp = state.make(cfg)
            tg = Counter()
            for op in ev[2]:
                ops.apply_with_ghost(mon, tmp, op, tg)
            mon.api(real[i].merge, tmp)
            ghost[i] = ghost[i] + tg
            del tmp
            mon.count("temporary_operands_merged")
            touched = [i]
        else:
            i, op = ev
            ops.apply_with_ghost(mon, real[i], op, ghost[i])
            mon.count("ops:" + op[0])
            touched = [i]
        for i in touched:
            if any(f >= CAP for f in ghost[i].values()) or sum(ghost[i].values()) >= CAP:
                saturating = True
                mon.count("events_in_saturating_regime")
            check_all(mon, real[i], ghost[i], universe, cells, w, d, ev)
    if shared:
        mon.count("histories_with_shared_cell")
    mon.seen("width", w)
    mon.seen("depth", d)
    mon.nontrivial(shared or saturating)


# ---------------------------------------------------------------------------------------------
# exhaustive small scope
# ---------------------------------------------------------------------------------------------
def gen_exhaustive(rng, ctx):
    length = {"quick": 4, "thorough": 6}[ctx.tier]
    for (w, d) in ((1, 1), (2, 1), (1, 2), (2, 2)):
        # pick 3 keys such that at width 2 some pair collides in a row and some pair does not
        pr = prober(w, d)
        for _attempt in range(200):
            keys = key_family(rng, 3, 0, 6)
            cs = [pr.cells(k) for k in keys]
            if w == 1:
                break
            coll = any(cs[i][r] == cs[j][r] for i in range(3) for j in range(i) for r in range(d))
            sep = any(cs[i][r] != cs[j][r] for i in range(3) for j in range(i) for r in range(d))
            if coll and sep:
                break
        yield {"type": "exhaustive", "width": w, "depth": d, "keys": [hx(k) for k in keys], "values": [1, 2, CAP - 1],
               "length": length if (w, d) != (2, 2) or ctx.thorough else length}


def run_exhaustive(case, ctx, mon):
    w, d = case["width"], case["depth"]
    keys = [unhx(k) for k in case["keys"]]
    vals = case["values"]
    L = case["length"]
    cfg = {"kind": "linear", "width": w, "depth": d}
    sk2 = [state.make(cfg), state.make(cfg)]
    gh = [[0, 0, 0], [0, 0, 0]]
    pr = prober(w, d)
    stranger = b"\xfe-stranger"
    universe = keys + [stranger]
    cells = {k: pr.cells(k) for k in universe}
    alphabet = [("add", s, i, v) for s in (0, 1) for i in range(3) for v in vals] + [("merge", 0, 1), ("merge", 1, 0)]
    seen = {}
    stats = {"nodes": 0, "pruned": 0}

    def ghost_counter(s):
        return Counter({keys[i]: gh[s][i] for i in range(3) if gh[s][i]})

    def digest():
        return (sk2[0].cms.tobytes(), sk2[1].cms.tobytes(), tuple(gh[0]), tuple(gh[1]),
                int(sk2[0].n_added_records[0]), int(sk2[1].n_added_records[0]))

    def dfs(depth, trail):
        dg = digest()
        if seen.get(dg, -1) >= L - depth:
            stats["pruned"] += 1
            return
        seen[dg] = L - depth
        if depth == L:
            return
        snap = (sk2[0].cms.copy(), sk2[0].n_added_records.copy(), sk2[1].cms.copy(), sk2[1].n_added_records.copy(),
                list(gh[0]), list(gh[1]))
        for ev in alphabet:
            stats["nodes"] += 1
            if ev[0] == "add":
                _, s, i, v = ev
                sk2[s].add(keys[i], v)
                gh[s][i] += v
                t = s
            else:
                _, a, b = ev
                sk2[a].merge(sk2[b])
                gh[a] = [x + y for x, y in zip(gh[a], gh[b])]
                t = a
            check_all(mon, sk2[t], ghost_counter(t), universe, cells, w, d, list(trail) + [list(ev)])
            dfs(depth + 1, trail + [list(ev)])
            sk2[0].cms[:] = snap[0]
            sk2[0].n_added_records[:] = snap[1]
            sk2[1].cms[:] = snap[2]
            sk2[1].n_added_records[:] = snap[3]
            gh[0][:] = snap[4]
            gh[1][:] = snap[5]

    dfs(0, [])
    mon.count("exhaustive_nodes", stats["nodes"])
    mon.count("exhaustive_pruned_by_state_memo", stats["pruned"])
    mon.count("exhaustive_distinct_states", len(seen))
    mon.count("exhaustive_configs_completed")
    mon.seen("exhaustive_scope", f"w{w}d{d}L{L}")
    mon.nontrivial()


def run_zipf(case, ctx, mon):
    """Realistic sizes (the repository's own test regime): Zipf stream over a 1000-key vocabulary split over several
    sketches, fed through update(list)/update(dict) in batches, merged; both bounds checked for every vocabulary key."""
    w, d, n_sk = case["width"], case["depth"], case["n"]
    rng = np.random.default_rng(case["seed"])
    vocab = list({bytes(rng.integers(0, 256, int(rng.integers(1, 17)), dtype=np.uint8)) for _ in range(case["vocab"])})
    pz = np.arange(1, len(vocab) + 1, dtype=np.float64) ** -1.1
    pz /= pz.sum()
    cfg = {"kind": "linear", "width": w, "depth": d}
    real = [state.make(cfg) for _ in range(n_sk)]
    ghost = [Counter() for _ in range(n_sk)]
    for i in range(n_sk):
        draws = rng.choice(len(vocab), case["stream"], p=pz).tolist()
        for b in range(0, len(draws), 500):
            batch = [vocab[j] for j in draws[b: b + 500]]
            if (b // 500) % 2:
                real[i].update(dict(Counter(batch)))
            else:
                real[i].update(batch)
            ghost[i].update(batch)
    pr = prober(w, d)
    cells = {k: pr.cells(k) for k in vocab + [b"\xfe-never-added"]}
    pr.cache.clear()
    for i in range(1, n_sk):
        mon.api(real[0].merge, real[i])
        ghost[0] = ghost[0] + ghost[i]
    check_all(mon, real[0], ghost[0], vocab + [b"\xfe-never-added"], cells, w, d, "zipf-final")
    mon.check(int(real[0].n_added()) == sum(ghost[0].values()), "n_added==stream-length", got=int(real[0].n_added()), want=sum(ghost[0].values()))
    mon.count("zipf_realistic_cases")
    mon.seen("zipf_width", w)
    mon.nontrivial(True)


def run_rowpair(case, ctx, mon):
    """Two keys sharing a counter in exactly one chosen row are counted in different sketches with values just below a power
    of two, merged (the shared counter crosses that power while the other rows do not), then saved and loaded through every
    loader: both bounds must hold at every step."""
    w, d, r = case["width"], case["depth"], case["row"]
    cfg = {"kind": "linear", "width": w, "depth": d}
    pr = prober(w, d)
    pair = state.find_row_pair(pr, d, r, np.random.default_rng(case["seed"]), tries=120 if w > 2 else 60)
    if pair is None:
        mon.count("rowpair_not_constructible")
        return
    k1, k2 = pair
    v1, v2 = case["values"]
    a, b = state.make(cfg), state.make(cfg)
    a.add(k1, v1)
    b.add(k2, v2)
    stranger = b"\xfe-never"
    universe = [k1, k2, stranger]
    cells = {k: pr.cells(k) for k in universe}
    ga, gb = Counter({k1: v1}), Counter({k2: v2})
    mon.api(a.merge, b)
    ga = ga + gb
    check_all(mon, a, ga, universe, cells, w, d, "rowpair: merge")
    for shm in (False, True):
        for via in (False, True):
            c = mon.api(state.save_load, a, "linear", shm, via)
            check_all(mon, c, ga, universe, cells, w, d, f"rowpair: save+load shm={shm} via_module={via}")
            c.add(k1, 1)
            g2 = ga + Counter({k1: 1})
            check_all(mon, c, g2, universe, cells, w, d, "rowpair: add after load")
            del c
    mon.count("rowpair_cases")
    mon.seen("rowpair_row", r)
    mon.nontrivial(True)


def gen_cases(ctx):
    rng = ctx.rng("cases")
    # threads that each fill their OWN linear sketch (one shape) through long calls: see vmon/thread_common.py (round 8, seed C01-N)
    for rep in range(2 if ctx.quick else 5):
        yield {"type": "threads_own", "kind": "linear", "threads": 6, "seed": 1000 + rep + 17 * ctx.shard}
    for r in range(4):
        for vals in ((40000, 40000), (65535, 1), (200, 100), (2**24 - 1, 2), (2**31 - 5, 2**31 - 5), (65535, 65535)):
            yield {"type": "rowpair", "width": pick(rng, [3, 5, 8]), "depth": max(r + 1, pick(rng, [2, 4])), "row": r, "values": list(vals),
                   "seed": int(rng.integers(0, 2**31))}
    # one update() with a list of 65536+ items over a key family with NUL-suffixed siblings (size-gated fast paths)
    fam = [b"ab", b"ab\x00", b"\x00", b"", b"q", b"ab\x00\x00", b"\xff\x00"]
    yield {"type": "history", "width": 64, "depth": 4, "n": 1, "strangers": [hx(b"zz")],
           "events": [[0, ["add", hx(b"ab"), 2]], [0, ["ulist_rep", [hx(k) for k in fam], pick(rng, [65536, 70000, 131072 + 5])]], [0, ["add", hx(b"q"), 1]]]}
    for w in ([64] if ctx.quick else [pick(rng, [25, 64, 100, 500, 2500])]):
        yield {"type": "zipf", "width": w, "depth": 8, "n": 3, "vocab": 1000, "stream": 8000 if ctx.quick else 25000, "seed": int(rng.integers(0, 2**31))}
    if ctx.quick or ctx.shard == 5:
        # shapes beyond what fits an 8- or 16-bit index: more than 65535 columns, more than 255 rows
        yield {"type": "zipf", "width": 70001, "depth": 3, "n": 2, "vocab": 1000, "stream": 6000, "seed": int(rng.integers(0, 2**31))}
        yield {"type": "zipf", "width": 5, "depth": 300, "n": 2, "vocab": 300, "stream": 3000, "seed": int(rng.integers(0, 2**31))}
    if ctx.quick or ctx.shard < 4:
        ex = list(gen_exhaustive(rng, ctx))
        if ctx.thorough:
            ex = [ex[ctx.shard]]  # one (width, depth) configuration per shard 0..3
        yield from ex
    n = 1200 if ctx.quick else 10**9
    for _ in range(n):
        yield gen_case(rng, ctx)


def run_case(case, ctx, mon):
    if case["type"] == "threads_own":
        from .. import thread_common

        thread_common.run_own_sketches(case, mon)
    elif case["type"] == "history":
        run_history(case, ctx, mon)
    elif case["type"] == "zipf":
        run_zipf(case, ctx, mon)
    elif case["type"] == "rowpair":
        run_rowpair(case, ctx, mon)
    else:
        run_exhaustive(case, ctx, mon)


def run(ctx, mon):
    state.fast_del(True)
    run_cases(ctx, mon, gen_cases(ctx), run_case)
    mon.extra(exhaustive=False,
              exhaustive_part="all event sequences up to the stated length over {add(k_i, v): i<3, v in {1,2,cap-1}} x 2 sketches + both merges, width,depth in {1,2}; memoised on (tables, ghost, remaining depth)")


def replay(case, ctx, mon):
    state.fast_del(True)
    run_case(case, ctx, mon)


def floors(mon, ctx):
    mon.floor("histories with a shared cell", mon.counters["histories_with_shared_cell"], 50)
    mon.floor("events in the saturating regime", mon.counters["events_in_saturating_regime"], 5)
    mon.floor("merges of unequal sketches", mon.counters["merges_of_unequal_sketches"], 20)
    mon.floor("save/load round trips", mon.counters["saveloads"], 5)
    mon.floor("exhaustive configurations completed", mon.counters["exhaustive_configs_completed"], 4 if ctx.quick else 1)
    mon.floor("row-pair merge+save/load cases", mon.counters["rowpair_cases"], 12)
