"""C15 - merging incompatible sketches is refused (TypeError) and changes nothing; compatible ones merge."""
from __future__ import annotations

import itertools

import numpy as np

from .. import ops, state
from ..common import pick, hx, key_family, run_cases

ID = "C15"
LEVEL = "exploration"
TECHNIQUE = "exception-type + bitwise state-snapshot monitor over an exhaustively enumerated configuration grid; operand pairs that are two handles on one shared-memory block"
RULE = ("case = ordered pair (a, b) of sketch configurations from a per-family grid (base configuration, one variant per "
        "parameter incl. off-by-one and differs-only-above-bit-32 values, all counter-type pairs at equal shape), both "
        "operands made non-empty by a short random history; non-trivial = the two configurations differ in exactly one "
        "merge-relevant parameter (or only in the counter type), or are equal / differ only in phi (must merge); a fifth of the pairs is "
        "tested right after a compatible temporary was merged and dropped (6 operands built at the freed address each), a fifth with an "
        "operand whose bookkeeping totals wrapped to exactly 0 after 64 self-merges; user subclasses on either side")
ASSUMPTIONS = ["grid values are representative of 'differs in parameter X'; widths <= 64, depths <= 8"]
LEVEL_TEXT = ("Every ordered pair of a configuration grid per family is executed against the real merge(): mismatching "
              "pairs must raise TypeError with both operands bit-for-bit unchanged, matching pairs must merge. The grid "
              "is enumerated completely; the thorough tier adds randomised base configurations.")
LEVEL_NOTE = "exhaustive over the grid, not over all configurations; snapshot covers every documented array and parameter"
BUDGET = {"quick": 60, "thorough": 120}
SHARDS = {"quick": 1, "thorough": 8}


def cms_grid(rng, randomise):
    w = int(rng.integers(1, 33)) if randomise else 8
    d = int(rng.integers(1, 7)) if randomise else 3
    mc16 = pick(rng, [2**32 - 1, 10**7, 2**40]) if randomise else 2**32 - 1
    nr16 = pick(rng, [1023, 0, 77]) if randomise else 1023
    mc8 = pick(rng, [2**32 - 1, 10**6, 2**40]) if randomise else 2**32 - 1
    nr8 = pick(rng, [15, 0, 40]) if randomise else 15
    g = [
        {"kind": "linear", "width": w, "depth": d},
        {"kind": "linear", "width": w + 1, "depth": d},
        {"kind": "linear", "width": w, "depth": d + 1},
        {"kind": "linear", "width": w + 256, "depth": d},
        {"kind": "linear", "width": 2 * w, "depth": d},      # same number of cells as the next one,
        {"kind": "linear", "width": w, "depth": 2 * d},      # different width and depth
        {"kind": "linear", "width": d, "depth": w},          # transposed shape of the base configuration
        {"kind": "linear", "width": w + 2**16, "depth": d},
        # operands that array broadcasting would silently stretch to the receiver's shape
        {"kind": "linear", "width": w, "depth": 1},
        {"kind": "linear", "width": 1, "depth": d},
        {"kind": "linear", "width": 1, "depth": 1},
    ]
    # a log16 and a log8 sketch that agree on *every* parameter value (only the counter type differs)
    g.append({"kind": "log16", "width": w, "depth": d, "max_count": mc8, "num_reserved": nr8})
    g.append({"kind": "log8", "width": w, "depth": d, "max_count": mc16, "num_reserved": min(nr16, 200)})
    g.append({"kind": "log16", "width": w, "depth": d, "max_count": mc16, "num_reserved": min(nr16, 200)})
    for kind, mc, nr in (("log16", mc16, nr16), ("log8", mc8, nr8)):
        base = {"kind": kind, "width": w, "depth": d, "max_count": mc, "num_reserved": nr}
        g.append(base)
        g.append(dict(base, width=w + 1))
        g.append(dict(base, depth=d + 1))
        g.append(dict(base, max_count=mc + 1))
        g.append(dict(base, max_count=mc + 2**32))  # differs only above bit 32
        g.append(dict(base, max_count=10**5))
        g.append(dict(base, num_reserved=nr + 1))
        g.append(dict(base, num_reserved=nr + 5))
        # differences that vanish when a parameter is squeezed through a narrower integer type
        if kind == "log16":
            g.append(dict(base, num_reserved=nr + 256))
            g.append(dict(base, num_reserved=nr + 512))
        g.append(dict(base, max_count=mc + 2**16))
        for big in (2**40, 2**48, 10**13):
            g.append(dict(base, max_count=big))
            g.append(dict(base, max_count=big + 1))  # relative difference below the resolution of a derived float
        g.append(dict(base, width=w + 256))
        g.append(dict(base, depth=d + 256))
        g.append(dict(base, width=2 * w))
        g.append(dict(base, depth=2 * d))
        g.append(dict(base, depth=1))
        g.append(dict(base, width=1))
    return g


def hll_grid(rng, randomise):
    p = int(rng.integers(7, 16)) if randomise else 9
    sd = int(rng.integers(0, 2**31)) if randomise else 5
    return [
        {"kind": "hll", "p": p, "seed": sd},
        {"kind": "hll", "p": p + 1, "seed": sd},
        {"kind": "hll", "p": 7 if p != 7 else 8, "seed": sd},
        {"kind": "hll", "p": p, "seed": sd + 1},
        {"kind": "hll", "p": p, "seed": sd + 2**32},  # differs only above bit 32
        {"kind": "hll", "p": p, "seed": sd + 2**63},
        {"kind": "hll", "p": p, "seed": sd + 256},
        {"kind": "hll", "p": p, "seed": sd + 2**63 + 1},     # equal to sd + 2^63 once rounded to a float64
        {"kind": "hll", "p": p, "seed": 2**64 - 2},          # likewise next to 2^64 - 1
        {"kind": "hll", "p": p, "seed": 2**53 + 1},
        {"kind": "hll", "p": p, "seed": 2**53},
        {"kind": "hll", "p": p, "seed": sd + 2**16},
        {"kind": "hll", "p": p, "seed": 2**64 - 1},
    ]


def hh_grid(rng, randomise):
    w = int(rng.integers(1, 17)) if randomise else 4
    d = int(rng.integers(1, 5)) if randomise else 2
    L = int(rng.integers(1, 17)) if randomise else 8
    base = {"kind": "hh", "width": w, "depth": d, "max_key_len": L}
    return [
        base,
        dict(base, width=w + 1),
        dict(base, depth=d + 1),
        dict(base, max_key_len=L + 1),
        dict(base, max_key_len=max(1, L - 1) if L > 1 else 3),
        dict(base, width=w + 256),
        dict(base, depth=d + 256),
        dict(base, width=2 * w),
        dict(base, depth=2 * d),
        dict(base, phi=0.013),  # phi is not merge-relevant: must merge with base
        dict(base, depth=1),
        dict(base, width=1),
    ]


MERGE_KEYS = {
    "linear": ("kind", "width", "depth"),
    "log16": ("kind", "width", "depth", "max_count", "num_reserved"),
    "log8": ("kind", "width", "depth", "max_count", "num_reserved"),
    "hh": ("kind", "width", "depth", "max_key_len"),
    "hll": ("kind", "p", "seed"),
}


def compatible(a, b):
    if a["kind"] != b["kind"]:
        return False
    return all(a.get(k) == b.get(k) for k in MERGE_KEYS[a["kind"]])


def n_diff(a, b):
    if a["kind"] != b["kind"]:
        ks = ("width", "depth")
        return 1 + sum(a.get(k) != b.get(k) for k in ks)
    return sum(a.get(k) != b.get(k) for k in MERGE_KEYS[a["kind"]])


_SUBS = {}


def make_maybe_subclass(cfg, sub):
    """A sketch of the library class, or of a trivial user subclass of it (class Labelled(X): pass)."""
    if not sub:
        return state.make(cfg)
    base = state.make(cfg)
    cls = type(base)
    if cls not in _SUBS:
        _SUBS[cls] = type("Labelled" + cls.__name__, (cls,), {})
    obj = _SUBS[cls].__new__(_SUBS[cls])
    obj.__dict__.update(base.__dict__)
    return obj


def run_churn(case, ctx, mon):
    """A long-lived process: sketch A stays alive while a few hundred sketches of other shapes / configurations are built
    (and dropped); a new sketch with A's parameters must still merge with A, in both directions, and a mismatching one must not."""
    base = case["base"]
    a = state.make(base)
    a.add(b"a-key", 3)
    rng = np.random.default_rng(case["seed"])
    for i in range(case["others"]):
        o = dict(base)
        if base["kind"] == "hll":
            o["seed"] = int(rng.integers(1, 2**62))
        elif base["kind"] in ("log16", "log8") and i % 2:
            o["max_count"] = int(2**20 + i * 977)
            o["num_reserved"] = int(i % 200)
        else:
            o["width"] = 2 + i
            o["depth"] = 1 + i % 3
        t = state.make(o)
        t.add(b"x", 1)
        if i % 3 == 0:
            t2 = state.make(o)
            t2.merge(t)
        del t
    b = state.make(base)
    b.add(b"b-key", 2)
    for x, y, name in ((a, b, "old<-new"), (b, a, "new<-old")):
        try:
            x.merge(y)
            raised = None
        except Exception as exc:  # noqa: BLE001
            raised = type(exc).__name__
        mon.check(raised is None, "compatible-pair-merges", raised=raised, a=base, b=base, direction=name,
                  how=f"{case['others']} sketches of other configurations were built between the two operands")
    bad = dict(base)
    if base["kind"] == "hll":
        bad["seed"] = base.get("seed", 0) + 1
    else:
        bad["width"] = base["width"] + 1
    c = state.make(bad)
    try:
        a.merge(c)
        raised = None
    except TypeError:
        raised = "TypeError"
    except Exception as exc:  # noqa: BLE001
        raised = type(exc).__name__
    mon.check(raised == "TypeError", "incompatible-pair-raises-TypeError", raised=raised, a=base, b=bad, how="after building many other configurations")
    mon.count("churn_cases")
    mon.count("configurations_built_between_two_compatible_operands", case["others"])
    mon.nontrivial(True)


def gen_cases(ctx):
    rng = ctx.rng("grid")
    for base in ({"kind": "hh", "width": 5, "depth": 2, "max_key_len": 6}, {"kind": "log8", "width": 4, "depth": 2, "max_count": 2**32 - 1, "num_reserved": 15},
                 {"kind": "linear", "width": 6, "depth": 3}, {"kind": "hll", "p": 8, "seed": 4}, {"kind": "log16", "width": 4, "depth": 2, "max_count": 10**6, "num_reserved": 100}):
        yield {"churn": True, "base": base, "others": 700 if base["kind"] == "log8" else 300, "seed": int(rng.integers(0, 2**31))}
    rounds = 1 if ctx.quick else 6
    for rd in range(rounds):
        randomise = rd > 0 or ctx.shard > 0
        for grid in (cms_grid(rng, randomise), hll_grid(rng, randomise), hh_grid(rng, randomise)):
            keys = key_family(rng, 6, 0, 10)
            hist_a = [ops.gen_op(rng, keys, max_value=30, big=0) for _ in range(4)] + [["add", hx(keys[0]), 3]]
            hist_b = [ops.gen_op(rng, keys, max_value=30, big=0) for _ in range(4)] + [["add", hx(keys[-1]), 2]]
            for n_pair, (a, b) in enumerate(itertools.product(grid, repeat=2)):
                c = {"a": a, "b": b, "hist_a": hist_a, "hist_b": hist_b}
                if n_pair % 5 == 2:
                    c["after_dropped_temp"] = True
                elif n_pair % 5 == 4:
                    c["wrapped_operand"] = True
                yield c
            # both operands are handles on ONE shared-memory block (b is built with its own parameters and then attached to a's
            # block with attach_existing_shm): compatibility is a matter of parameters, not of where the arrays live (round 8, C15-N)
            for a, b in itertools.islice(itertools.product(grid, repeat=2), 0, None, 3 if ctx.quick else 1):
                if a["kind"] == b["kind"]:
                    yield {"a": a, "b": b, "hist_a": hist_a, "hist_b": [], "same_block": True}
            # a trivial user subclass on either side must behave like the library class (equal and unequal configurations)
            for a, b in ((grid[0], grid[0]), (grid[0], grid[1]), (grid[1], grid[0])):
                for a_sub, b_sub in ((True, False), (False, True), (True, True)):
                    yield {"a": a, "b": b, "hist_a": hist_a, "hist_b": hist_b, "a_sub": a_sub, "b_sub": b_sub}


def run_same_block(case, ctx, mon):
    a_cfg, b_cfg = case["a"], case["b"]
    # only pairs whose arrays have exactly the same byte sizes: attaching a view of another size to a block is not a documented use
    # (the unchanged attach_existing_shm raises ValueError for most of them)
    nb = [[int(getattr(state._make(c, False), n).nbytes) for n in state.ARRAYS[c["kind"]]] for c in (a_cfg, b_cfg)]
    if nb[0] != nb[1]:
        mon.count("same_block_pairs_skipped:different_array_sizes")
        return
    a = state.make(a_cfg, shared_memory=True)
    b = None
    try:
        for op in case["hist_a"]:
            ops.apply_op(a, op)
        b = state._make(b_cfg, False)
        b.attach_existing_shm(a.shm.name)
        ok = compatible(a_cfg, b_cfg)
        mon.count("same_block_pairs:" + ("compatible" if ok else "incompatible") + ":" + a_cfg["kind"][:3])
        mon.nontrivial(not ok)
        for x, y, xc, yc, how in ((a, b, a_cfg, b_cfg, "owner.merge(view)"), (b, a, b_cfg, a_cfg, "view.merge(owner)")):
            sx, sy = state.snapshot(x), state.snapshot(y)
            try:
                x.merge(y)
                raised = None
            except TypeError:
                raised = "TypeError"
            except Exception as exc:  # noqa: BLE001
                raised = type(exc).__name__
            if ok:
                mon.check(raised is None, "compatible-pair-merges", raised=raised, a=xc, b=yc, how=how + " on one shared-memory block")
            else:
                mon.check(raised == "TypeError", "incompatible-pair-raises-TypeError", raised=raised, a=xc, b=yc, how=how + " on one shared-memory block")
                dx, dy = state.snap_diff(sx, state.snapshot(x)), state.snap_diff(sy, state.snapshot(y))
                mon.check(not dx and not dy, "refused-merge-changes-nothing", self_differs_in=dx, other_differs_in=dy, a=xc, b=yc, how=how)
    finally:
        del b
        del a


def run_case(case, ctx, mon):
    if case.get("churn"):
        return run_churn(case, ctx, mon)
    if case.get("same_block"):
        return run_same_block(case, ctx, mon)
    a_cfg, b_cfg = case["a"], case["b"]
    a = make_maybe_subclass(a_cfg, case.get("a_sub"))
    for op in case["hist_a"]:
        ops.apply_op(a, op)
    if case.get("after_dropped_temp"):
        # a compatible temporary is merged and dropped right before the operand under test is built: the new object often gets
        # the freed address, and anything remembered about 'the sketch merged last' by identity now points at it
        for _ in range(3):
            tmp = make_maybe_subclass(a_cfg, False)
            tmp.add(b"tmp-key", 2)
            a.merge(tmp)
            del tmp
        mon.count("pairs_tested_right_after_a_dropped_compatible_temporary")
        if not compatible(a_cfg, b_cfg):
            for _ in range(6):
                tmp = make_maybe_subclass(a_cfg, False)
                a.merge(tmp)
                addr = id(tmp)
                before = state.snapshot(a)
                del tmp
                b2 = make_maybe_subclass(b_cfg, False)  # often allocated where the temporary was
                reused = id(b2) == addr
                b2.add(b"b2-key", 3)
                try:
                    a.merge(b2)
                    raised = None
                except TypeError:
                    raised = "TypeError"
                except Exception as exc:  # noqa: BLE001
                    raised = type(exc).__name__
                mon.check(raised == "TypeError", "incompatible-pair-raises-TypeError", raised=raised, a=a_cfg, b=b_cfg,
                          how="operand built right after a compatible temporary was merged and dropped", operand_reused_the_temporarys_address=reused)
                d = state.snap_diff(before, state.snapshot(a))
                mon.check(not d, "refused-merge-changes-nothing", self_differs_in=d, a=a_cfg, b=b_cfg)
                if reused:
                    mon.count("incompatible_operands_at_the_address_of_a_dropped_compatible_temporary")
                del b2
    b = make_maybe_subclass(b_cfg, case.get("b_sub"))
    for op in case["hist_b"]:
        ops.apply_op(b, op)
    if case.get("wrapped_operand") and b_cfg["kind"] != "hll":
        # 64 self-merges double the bookkeeping totals to exactly 0 (mod 2^64) while the tables are full of data
        for _ in range(64):
            b.merge(b)
        if int(b.n_added()) == 0:
            mon.count("operands_whose_bookkeeping_wrapped_to_zero")
    sa, sb = state.snapshot(a), state.snapshot(b)
    ok = compatible(a_cfg, b_cfg)
    mon.nontrivial(n_diff(a_cfg, b_cfg) <= 1)
    mon.count("pairs:" + ("compatible" if ok else "incompatible") + ":" + a_cfg["kind"][:3] + "/" + b_cfg["kind"][:3])
    try:
        a.merge(b)
    except TypeError:
        raised = "TypeError"
    except Exception as exc:  # noqa: BLE001
        raised = type(exc).__name__
    else:
        raised = None
    if ok:
        mon.check(raised is None, "compatible-pair-merges", raised=raised, a=a_cfg, b=b_cfg)
        d = state.snap_diff(sb, state.snapshot(b))
        mon.check(not d, "merge-leaves-other-unchanged", differs_in=d, a=a_cfg, b=b_cfg)
    else:
        mon.check(raised == "TypeError", "incompatible-pair-raises-TypeError", raised=raised, a=a_cfg, b=b_cfg)
        da = state.snap_diff(sa, state.snapshot(a))
        db = state.snap_diff(sb, state.snapshot(b))
        mon.check(not da and not db, "refused-merge-changes-nothing", self_differs_in=da, other_differs_in=db,
                  a=a_cfg, b=b_cfg)
        if a_cfg["kind"] in ("log16", "log8"):
            # the public draw state of a log sketch is part of "unchanged" too
            pass
    names = ("kind", "width", "depth") if a_cfg["kind"] != b_cfg["kind"] else (
        "width", "depth", "max_count", "num_reserved", "p", "seed", "max_key_len", "phi")
    param = [k for k in names if a_cfg.get(k) != b_cfg.get(k)]
    mon.seen("differing_parameter_sets", "+".join(param) if param else "none")


def run(ctx, mon):
    state.fast_del(True)  # handles on shared-memory blocks are dropped without the library's 0.25 s pause per sketch
    run_cases(ctx, mon, gen_cases(ctx), run_case)
    mon.extra(exhaustive=True, exhaustive_scope="all ordered pairs of each grid")


def replay(case, ctx, mon):
    run_case(case, ctx, mon)


def floors(mon, ctx):
    mon.floor("incompatible pairs of handles on one shared-memory block", sum(v for k, v in mon.counters.items() if k.startswith("same_block_pairs:incompatible")), 20)
    inc = sum(v for k, v in mon.counters.items() if k.startswith("pairs:incompatible"))
    com = sum(v for k, v in mon.counters.items() if k.startswith("pairs:compatible"))
    mon.floor("incompatible pairs", inc, 200)
    mon.floor("configurations built between two compatible operands", mon.counters["configurations_built_between_two_compatible_operands"], 1500)
    mon.floor("pairs tested right after a dropped compatible temporary", mon.counters["pairs_tested_right_after_a_dropped_compatible_temporary"], 100)
    mon.floor("incompatible operands allocated at the address of a dropped compatible temporary",
              mon.counters["incompatible_operands_at_the_address_of_a_dropped_compatible_temporary"], 30)
    mon.floor("operands whose bookkeeping totals wrapped to zero", mon.counters["operands_whose_bookkeeping_wrapped_to_zero"], 50)
    mon.floor("compatible pairs", com, 20)
    for need in ("width", "depth", "max_count", "num_reserved", "kind", "p", "seed", "max_key_len"):
        mon.floor(f"single-parameter difference in {need}", int(need in mon.classes["differing_parameter_sets"]), 1)
