"""C03 - heavy hitters never over-count and never report a key that was not added."""
from __future__ import annotations

from .. import hh_common as H
from ..common import CAP, hx, run_cases

ID = "C03"
LEVEL = "exploration"
TECHNIQUE = "ghost-state monitor: exact per-identity counts kept beside each real HeavyHitters sketch (merge = sum, load = copy); after every event every hh[key] of the universe (incl. zero-padding aliases and never-added neighbours) and every pair of query() are compared with the ghost"
RULE = ("case = (width 1..16, depth 1..4, max_key_len 1..16, up to 4 sketches, event list of add/update/add_ngram/update_ngram/merge/"
        "save+load) over a key family with NUL-suffixed aliases, all-NUL keys, the empty key and over-long keys sharing a prefix; "
        "non-trivial = two different identities share a cell, or a zero-padding alias pair meets in one cell; distinct = by case digest")
ASSUMPTIONS = ["max_key_len <= 16 and widths <= 16 (255 and larger widths are legal but not generated)",
               "a key's identity is its first max_key_len bytes compared as a byte string, as the statement defines"]
LEVEL_TEXT = ("count <= true multiplicity is evaluated after every event for every key of a universe that always contains the aliases "
              "zero-padded storage could confuse (k+NUL, k without trailing NULs, empty, all-NUL of every length) and for every pair "
              "returned by query(inf, 0) and query(inf) on every sketch.")
LEVEL_NOTE = "ghost truth in unbounded Python integers, keyed by identity; no assumption on which cell a key owns"
BUDGET = {"quick": 75, "thorough": 360}
SHARDS = {"quick": 1, "thorough": 16}
BOUNDSCHECK = True


def hook(run, i, ev):
    mon = run.mon
    s, g, L = run.real[i], run.ghost[i], run.L
    for k in run.universe:
        got = int(s[k])
        f = g.get(k, 0)
        if got > f:
            mon.check(False, "hh[key]<=true-count", key=hx(k), got=got, true=f, ev=ev, cfg=run.cfg)
    mon.tick("hh[key]<=true-count", len(run.universe))
    for raw in run.raw_keys:
        if len(raw) > L:
            got = int(mon.api(s.__getitem__, raw))
            mon.check(got <= g.get(H.ident(raw, L), 0), "hh[over-long key]<=true-count-of-its-identity", key=hx(raw), got=got,
                      true=g.get(H.ident(raw, L), 0), ev=ev, cfg=run.cfg)
    for thr in (0, None):
        res = mon.api(s.query, 10**9, thr)
        for key, cnt in res:
            f = g.get(bytes(key), 0)
            if int(cnt) > f or (int(cnt) > 0 and f == 0):
                mon.check(False, "query-pair:count<=true-count-and-key-was-added", key=hx(key), count=int(cnt), true=f, threshold=thr, ev=ev,
                          cfg=run.cfg, answer=H.hh_pairs(res)[:8])
        mon.tick("query-pair:count<=true-count-and-key-was-added", len(res))
        mon.count("query_pairs_seen", len(res))


def run_zipf(case, ctx, mon):
    s, ghost, cells, ids = H.build_zipf(case, mon)
    for k in ids:
        got = int(s[k])
        if got > ghost[k]:
            mon.check(False, "hh[key]<=true-count", key=hx(k), got=got, true=ghost[k], cfg=case["cfg"], regime="zipf")
    mon.tick("hh[key]<=true-count", len(ids))
    for thr in (0, None):
        res = s.query(10**9, thr)
        for key, cnt in res:
            f = ghost.get(bytes(key), 0)
            mon.check(int(cnt) <= f and (int(cnt) == 0 or f > 0), "query-pair:count<=true-count-and-key-was-added", key=hx(key), count=int(cnt), true=f,
                      cfg=case["cfg"], regime="zipf")
        mon.count("query_pairs_seen", len(res))
    mon.count("zipf_realistic_cases")
    mon.nontrivial(True)


def run_case(case, ctx, mon):
    if case.get("type") == "zipf":
        return run_zipf(case, ctx, mon)
    r = H.Run(case, mon, hook)
    r.go()
    mon.nontrivial(r.shared or r.alias_in_cell)


def gen_cases(ctx):
    rng = ctx.rng("cases")
    yield H.zipf_case(rng, ctx)
    yield H.huge_list_case(rng)
    n = 900 if ctx.quick else 10**9
    for _ in range(n):
        yield H.gen_history_case(rng, ctx, big=0.12)


def run(ctx, mon):
    from .. import state

    state.fast_del(True)
    run_cases(ctx, mon, gen_cases(ctx), run_case)


def replay(case, ctx, mon):
    from .. import state

    state.fast_del(True)
    run_case(case, ctx, mon)


def floors(mon, ctx):
    mon.floor("histories with a shared cell", mon.counters["histories_with_shared_cell"], 50)
    mon.floor("histories with an alias pair sharing a cell", mon.counters["histories_with_alias_pair_in_a_cell"], 10)
    mon.floor("histories with an all-NUL key", mon.counters["histories_with_all_nul_key"], 10)
    mon.floor("merges", mon.counters["merges"], 20)
    mon.floor("query pairs inspected", mon.counters["query_pairs_seen"], 500)
