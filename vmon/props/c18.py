"""C18 - counters saturate at their ceiling; they never wrap around."""
from __future__ import annotations

import numpy as np

from .. import known, ops, state
from ..common import CAP, hx, key_family, pick, rand_key, run_cases, sk, unhx

ID = "C18"
LEVEL = "exploration"
TECHNIQUE = "ceiling-approach monitor: adds and merges are scripted to land within +-3 of every ceiling from below and beyond and repeated after saturation, with a monotonicity invariant over all estimates; log configurations are enumerated on a grid and the decoded ceiling is recomputed by the harness from the public base"
RULE = ("cases: (a) linear / heavy-hitter ceiling: (start offset in cap-3..cap, step in 0..2^40, add or merge, repeated) - estimate must be "
        "min(sum, cap) and stay at cap; (b) monotonicity: random histories on the three count-min types (small max_count for log) where no "
        "add or merge may lower any estimate, and a heavy-hitter key alone in its cells only grows; (c) log configuration grid max_count in "
        "{300..2^63} x num_reserved in {0..uint_max-1}: constructor raises ValueError or the maximum counter decodes to max_count (rel 1e-8); "
        "small max_count: the ceiling is reached by real adds and by merges and stays; non-trivial = the case reached a ceiling; distinct = by "
        "case digest; also: ceiling steps delivered by add_ngram (a window inside a longer record; a run of one byte), overflow placed in "
        "one chosen row, merges of nearly saturated tables of 4099..20000 cells, mostly-reserved log ranges (max_count < 2*num_reserved)")
ASSUMPTIONS = ["known finding F4 (countmin._find_base not converged / unsolvable configurations accepted) is classified by a model of the defective mechanism, see vmon/known.py",
               "log ceilings are reached by adding 3*max_count (max_count <= 10^6): probability of not reaching it < 1e-9 by the exact chain's variance"]
LEVEL_TEXT = ("All four ceilings (linear, heavy hitters, log8, log16) are approached from below and beyond by adds and by merges and "
              "re-hit after saturation; >= 100 log configurations are constructed and their ceiling decoded independently.")
LEVEL_NOTE = "decoding uses the documented formula with the sketch's public base attribute; F4 is the only open known finding"
BUDGET = {"quick": 90, "thorough": 300}
SHARDS = {"quick": 1, "thorough": 16}
UMAX = {"log16": 65535, "log8": 255}

MC = [300, 1000, 5000, 70000, 10**6, 2**32 - 1, 2**40, 2**63]
NR = {"log8": [0, 1, 15, 50, 100, 150, 200, 230, 250], "log16": [0, 1, 1023, 5000, 20000, 39000, 45000, 60000, 65000]}


# ------------------------------------------------------------------------------------------ (a)
def run_ceiling(case, ctx, mon):
    fam = case["family"]
    start, steps = case["start"], case["steps"]
    key = unhx(case["key"])
    if fam == "linear":
        cfg = {"kind": "linear", "width": case["width"], "depth": case["depth"]}
    else:
        cfg = {"kind": "hh", "width": case["width"], "depth": case["depth"], "max_key_len": case.get("max_key_len", 8)}
    try:
        s = state.make(cfg)
    except ValueError:
        if cfg.get("max_key_len", 8) > 255:
            mon.count("max_key_len_above_255_refused_by_this_tree")  # the unchanged library refuses such configurations
            mon.nontrivial(True)
            return
        raise
    est = lambda sk_: int(sk_.query(key)) if fam == "linear" else int(sk_[key])  # noqa: E731
    # reach `start` (close to the ceiling) with one add, key alone in the sketch
    if case.get("assigned_start") and fam == "linear":
        # ... or by writing the counters through the documented `cms` attribute (a table restored by the user): the bookkeeping
        # totals stay small while the cells are next to the ceiling
        cells_ = state.Prober(cfg).cells(key)
        for r_, c_ in enumerate(cells_):
            s.cms[r_, c_] = start
        mon.count("ceiling_cases_started_by_assigning_the_table")
    else:
        s.add(key, start)
    true = start
    mon.check(est(s) == min(true, CAP), "estimate==min(true,cap)-for-a-lone-key", family=fam, true=true, got=est(s), step="start", cfg=cfg)
    hit = est(s) == CAP
    for how, v in steps:
        before = est(s)
        if how == "ngram":
            # one more occurrence delivered by add_ngram inside a longer record (the other window must not share a cell)
            v = 1
            other = key[1:] + b"\xf7"
            pr = state.Prober(cfg)
            if len(key) >= 1 and all(a != b for a, b in zip(pr.cells(key if fam == "linear" else key[:8]), pr.cells(other if fam == "linear" else other[:8]))):
                mon.api(s.add_ngram, key + b"\xf7", len(key))
                mon.count(f"ceiling_steps_via_add_ngram:{fam}")
            else:
                mon.api(s.add, key, 1)
        elif how == "ngram-run":
            # the key is a run of one byte; a longer run of that byte is a record whose v + 1 windows are all the key
            mon.api(s.add_ngram, key[:1] * (len(key) + v), len(key))
            v = v + 1
            mon.count(f"ceiling_steps_via_add_ngram_of_a_byte_run:{fam}")
        elif how == "selfmerge":
            # both operands are the same memory: the count doubles, saturating
            v = true
            mon.api(s.merge, s)
            mon.count(f"self_merges:{fam}")
        elif how == "selfmerge-run":
            # n_added() doubles each time and wraps past 2^64 after 64 of them; the counters must simply stay at the ceiling
            for _ in range(70):
                mon.api(s.merge, s)
            v = true * (2**70 - 1)
            mon.count(f"self_merge_runs:{fam}")
        elif how == "merge-into-fresh":
            # the sketch (possibly with a wrapped n_added) is merged into a fresh one holding a little of the same key
            t_ = state.make(cfg)
            t_.add(key, 7)
            mon.api(t_.merge, s)
            s = t_
            v = 7
        elif how == "add":
            mon.api(s.add, key, v)
        else:
            o = state.make(cfg)
            o.add(key, min(v, CAP))  # the other sketch holds min(v, cap) for the key
            if v > CAP:
                o.add(key, v - CAP)
            mon.api(s.merge, o)
        true += v
        got = est(s)
        mon.check(got == min(true, CAP), "estimate==min(true,cap)-for-a-lone-key", family=fam, true=true, got=got, before=before, step=[how, v], cfg=cfg)
        mon.check(got >= before, "estimate-never-decreases", family=fam, before=before, got=got, step=[how, v], cfg=cfg)
        if before == CAP:
            mon.check(got == CAP, "stays-at-ceiling-after-saturation", family=fam, got=got, step=[how, v], cfg=cfg)
            mon.count(f"steps_after_saturation:{fam}")
        if got == CAP:
            hit = True
        mon.count(f"ceiling_steps:{fam}:{how}")
        mon.seen(f"landing:{fam}", max(-4, min(4, true - CAP)))
    mon.nontrivial(hit)


# ------------------------------------------------------------------------------------------ (b)
def run_monotone(case, ctx, mon):
    cfg = case["cfg"]
    kind = cfg["kind"]
    real = [state.make(cfg) for _ in range(case.get("n", 2))]
    universe = ops.universe_of([e[1] for e in case["events"] if isinstance(e[0], int)], extra=[unhx(k) for k in case["strangers"]])
    q = (lambda s_, k: float(s_.query(k))) if kind != "hh" else None
    at_ceiling = False
    ceil_val = None
    if kind in UMAX:
        ceil_val = state.decode_counter(UMAX[kind], real[0].num_reserved, float(real[0].base))
    for ev in case["events"]:
        t = ev[1] if ev[0] == "merge" else ev[0]
        before = {k: q(real[t], k) for k in universe}
        if ev[0] == "merge":
            mon.api(real[ev[1]].merge, real[ev[2]])
            mon.count(f"monotone_merges:{kind}")
        else:
            mon.api(ops.apply_op, real[t], ev[1])
        for k in universe:
            a = q(real[t], k)
            if a < before[k]:
                mon.check(False, "no-add-or-merge-lowers-an-estimate", kind=kind, key=hx(k), before=before[k], after=a, ev=ev, cfg=cfg)
            if kind == "linear" and before[k] == CAP or (ceil_val is not None and int(real[t].cms.max()) == UMAX[kind]):
                at_ceiling = True
        mon.tick("no-add-or-merge-lowers-an-estimate", len(universe))
    mon.count(f"monotone_histories:{kind}")
    mon.nontrivial(at_ceiling)


def run_bigmerge(case, ctx, mon):
    """Tables of several thousand cells (where chunked / blocked merge kernels have heads and tails), nearly every cell within 3 of
    the ceiling: merging a sketch that holds a little of the same keys may only raise estimates, and saturated keys stay saturated."""
    w, d = case["width"], case["depth"]
    cfg = {"kind": "linear", "width": w, "depth": d}
    rng = np.random.default_rng(case["seed"])
    a, b = state.make(cfg), state.make(cfg)
    keys = list({bytes(rng.integers(0, 256, 5, dtype=np.uint8)) for _ in range(3 * w)})
    for k in keys:
        a.add(k, CAP - int(rng.integers(0, 4)))
        v = int(rng.integers(0, 6))
        if v:
            b.add(k, v)
    before = [int(a.query(k)) for k in keys]
    before_b = [int(b.query(k)) for k in keys]
    mon.api(a.merge, b)
    lowered = 0
    for k, x, y in zip(keys, before, before_b):
        got = int(a.query(k))
        if got < x or got < y:
            lowered += 1
            mon.check(False, "no-add-or-merge-lowers-an-estimate", kind="linear", key=hx(k), before=x, other=y, after=got, cfg=cfg, step="merge of two big tables")
        if x == CAP and got != CAP:
            mon.check(False, "stays-at-ceiling-after-saturation", family="linear", got=got, cfg=cfg, step="merge of two big tables")
    mon.tick("no-add-or-merge-lowers-an-estimate", len(keys))
    mon.count("big_table_merges")
    mon.count("big_table_keys", len(keys))
    mon.nontrivial(CAP in before)


def run_row_asymmetric(case, ctx, mon):
    """A cell overflows in one particular row only: two keys that share a counter in row r but in no other row are brought to
    just under the ceiling by merges, then pushed over it by a third sketch.  Whichever row it is, the counter must saturate."""
    w, d, r = case["width"], case["depth"], case["row"]
    cfg = {"kind": "linear", "width": w, "depth": d}
    pr = state.Prober(cfg)
    rng = np.random.default_rng(case["seed"])
    found = None
    keys = [bytes(rng.integers(0, 256, 4, dtype=np.uint8)) for _ in range(60)]
    cells = [pr.cells(k) for k in keys]
    for i in range(len(keys)):
        for j in range(i):
            same = [cells[i][x] == cells[j][x] for x in range(d)]
            if same[r] and sum(same) == 1:
                found = (keys[i], keys[j])
                break
        if found:
            break
    if not found:
        mon.count("row_asymmetric_not_constructible")
        return
    k1, k2 = found
    a, b, c = state.make(cfg), state.make(cfg), state.make(cfg)
    v1, v2, v3 = case["values"]
    a.add(k1, v1)
    b.add(k2, v2)
    c.add(pick(rng, [k1, k2]), v3)
    col = pr.cells(k1)[r]
    total = v1
    for other, add, tag in ((b, v2, "merge b"), (c, v3, "merge c"), (c, v3, "merge c again")):
        before = {k: int(a.query(k)) for k in (k1, k2)}
        mon.api(a.merge, other)
        total += add
        for k in (k1, k2):
            got = int(a.query(k))
            mon.check(got >= before[k], "no-add-or-merge-lowers-an-estimate", kind="linear", key=hx(k), before=before[k], after=got, step=tag, cfg=cfg, row=r,
                      values=case["values"])
        cell = int(a.cms[r, col])
        mon.check(cell == min(CAP, total), "shared-cell-holds-min(sum,cap)-in-its-row", row=r, cell=cell, want=min(CAP, total), step=tag, cfg=cfg,
                  values=case["values"])
    mon.count("row_asymmetric_cases")
    mon.seen("row_asymmetric_row", r)
    mon.nontrivial(v1 + v2 + v3 >= CAP)


# ------------------------------------------------------------------------------------------ (c)
def run_logcfg(case, ctx, mon):
    kind, mc, nr = case["kind"], case["max_count"], case["num_reserved"]
    cfg = {"kind": kind, "max_count": mc, "num_reserved": nr}
    umax = UMAX[kind]
    try:
        s = state.make(dict(cfg, width=2, depth=2))
    except ValueError:
        mon.count("log_configs_rejected_with_ValueError")
        mon.seen("rejected", f"{kind}:{mc}/{nr}")
        mon.tick("log-ceiling-decodes-to-max_count")
        return
    mon.count("log_configs_accepted")
    base = float(s.base)
    key = b"k"
    s.cms[:] = umax
    got = float(s.query(key))
    want = state.decode_counter(umax, nr, base) if base > 1.0 else float("nan")
    ok = abs(got - mc) <= 1e-8 * mc
    mon.check(ok, "log-ceiling-decodes-to-max_count", cfg=cfg, base=base, ceiling_estimate=got, harness_decoding=want, max_count=mc,
              rel_error=abs(got - mc) / mc)
    mon.check(abs(got - want) <= 1e-9 * abs(want), "query==documented-decoding", cfg=cfg, base=base, got=got, want=want)
    # at the ceiling nothing moves any more
    s.rand_nums[:] = 0.0
    s.add(key, 5)
    mon.check(int(s.cms.min()) == umax and float(s.query(key)) == got, "log-ceiling-reached-and-sticks", cfg=cfg, base=base, step="add at ceiling")
    o = state.make(dict(cfg, width=2, depth=2))
    o.cms[:] = umax - 1
    s.merge(o)
    mon.check(int(s.cms.min()) == umax, "log-ceiling-reached-and-sticks", cfg=cfg, base=base, step="merge at ceiling", got=int(s.cms.min()))
    reached = False
    if mc <= 10**6 and known.true_base(mc, nr, umax) is not None and abs(known.decoded_ceiling(base, nr, umax) - mc) <= 1e-6 * mc:
        # reach the ceiling by real adds, and by merging two half-way sketches
        a = state.make(dict(cfg, width=1, depth=1))
        a.add(key, 3 * mc)
        mon.check(int(a.cms[0, 0]) == umax, "log-ceiling-reached-and-sticks", cfg=cfg, base=base, step="add(key, 3*max_count)", counter=int(a.cms[0, 0]))
        a.add(key, 1000)
        mon.check(int(a.cms[0, 0]) == umax and abs(float(a.query(key)) - mc) <= 1e-8 * mc, "log-ceiling-reached-and-sticks", cfg=cfg, base=base,
                  step="adds after the ceiling", counter=int(a.cms[0, 0]))
        b1, b2 = state.make(dict(cfg, width=1, depth=1)), state.make(dict(cfg, width=1, depth=1))
        b1.add(key, mc)
        b2.add(key, mc)
        est1, est2 = float(b1.query(key)), float(b2.query(key))
        b1.merge(b2)
        if est1 + est2 >= mc:
            mon.check(int(b1.cms[0, 0]) == umax, "log-ceiling-reached-and-sticks", cfg=cfg, base=base, step="merge past the ceiling", counter=int(b1.cms[0, 0]),
                      sum=est1 + est2)
        b1.merge(a)
        mon.check(int(b1.cms[0, 0]) == umax, "log-ceiling-reached-and-sticks", cfg=cfg, base=base, step="merge with a saturated sketch", counter=int(b1.cms[0, 0]))
        reached = True
        mon.count("log_ceilings_reached_by_real_adds:" + kind)
    mon.seen("accepted", f"{kind}:{mc}/{nr}")
    mon.nontrivial(reached or ok)


# -------------------------------------------------------------------------------------------------
def gen_cases(ctx):
    rng = ctx.rng("cases")
    q = ctx.quick
    sh, ns = ctx.shard, ctx.nshards
    cases = []
    for fam in ("linear", "hh"):
        for off in range(0, 4):
            for v in (0, 1, 2, 3, 4, 7, CAP - 1, CAP, CAP + 1, 2**32 + 3, 2**40):
                for how in ("add", "merge"):
                    steps = [[how, v], [pick(rng, ["add", "merge", "ngram"]), pick(rng, [0, 1, 3, CAP, 2**33])], ["add", 1], ["ngram", 1], ["merge", 2],
                             ["ngram", 1]]
                    cases.append({"type": "ceiling", "family": fam, "start": CAP - off - (3 if rng.random() < 0.5 else 0), "steps": steps,
                                  "key": hx(rand_key(rng, 1, 8)), "width": 64, "depth": int(rng.integers(1, 4)), "assigned_start": bool(rng.random() < 0.5)})
        # the empty key, and merges whose two operands are one sketch, from a few starting points
        for start in (5, 2**31 + 5, 2**31 - 1, CAP - 1, CAP):
            cases.append({"type": "ceiling", "family": fam, "start": start, "key": "", "width": int(rng.integers(1, 6)), "depth": int(rng.integers(1, 4)),
                          "steps": [["add", 3], ["add", 1], ["selfmerge", 0], ["add", 2], ["merge", 4], ["selfmerge", 0], ["add", 1]]})
            cases.append({"type": "ceiling", "family": fam, "start": start, "key": hx(rand_key(rng, 1, 8)), "width": 64, "depth": 2,
                          "steps": [["selfmerge", 0], ["add", 1], ["selfmerge", 0], ["selfmerge", 0]]})
        cases.append({"type": "ceiling", "family": fam, "start": 1, "key": hx(rand_key(rng, 1, 8)), "width": 3, "depth": 2,
                      "steps": [["selfmerge-run", 0], ["merge-into-fresh", 0], ["add", 1], ["merge", 5]]})
        # keys that are runs of one byte, pushed over the ceiling by add_ngram of a longer run (every window is the same n-gram)
        for n in (1, 2, 3, 4, 8):
            for off in (0, 1, 2, 5, 9, 40):
                cases.append({"type": "ceiling", "family": fam, "start": CAP - off, "key": hx(bytes([int(rng.integers(0, 256))]) * n), "width": 64,
                              "depth": int(rng.integers(1, 4)),
                              "steps": [["ngram-run", pick(rng, [0, 1, 2])], ["ngram-run", 2 * n + int(rng.integers(0, 4))], ["ngram-run", 3 * n + 30], ["add", 1],
                                        ["ngram-run", 2 * n]]})
    # heavy hitters with keys longer than 255 bytes (refused by the unchanged library; a tree that accepts them must count them)
    for mkl, klen in ((256, 256), (300, 280), (1000, 999), (255, 255)):
        cases.append({"type": "ceiling", "family": "hh", "start": 5, "key": hx(bytes(rng.integers(1, 256, klen, dtype=np.uint8))), "width": 3, "depth": 2,
                      "max_key_len": mkl, "steps": [["add", 3], ["merge", 4], ["add", CAP], ["add", 1], ["merge", 2]]})
    for shape in ((1001, 5), (997, 7), (4099, 1), (2050, 2), (1000, 8), (64 * 65 + 1, 1), (4097, 3)) + ((int(rng.integers(1025, 3000)), int(rng.integers(2, 8))),):
        cases.append({"type": "bigmerge", "width": shape[0], "depth": shape[1], "seed": int(rng.integers(0, 2**31))})
    for r in range(4):
        for vals in ((2**31, 2**31 - 10, 100), (CAP // 2, 2**31 - 10, 12), (2**31 - 10, 2**31 - 10, 2**31), (CAP - 5, 3, 7), (2**30, 2**31, 2**30 + 5)):
            for d in (r + 1, 4):
                if d > r:
                    cases.append({"type": "rowasym", "width": pick(rng, [2, 3, 5]), "depth": d, "row": r, "values": list(vals), "seed": int(rng.integers(0, 2**31))})
    for kind in ("log8", "log16"):
        for mc in MC:
            for nr in NR[kind]:
                cases.append({"type": "logcfg", "kind": kind, "max_count": mc, "num_reserved": nr})
        for mc, nr in ((255, 1), (256, 0), (256, 50), (100, 0), (65535, 1023), (65536, 0)):
            cases.append({"type": "logcfg", "kind": kind, "max_count": mc, "num_reserved": nr})
        # near-degenerate: max_count barely above the number of counter values (base within 1e-6 of 1)
        um = UMAX[kind]
        for _ in range(25):
            cases.append({"type": "logcfg", "kind": kind, "max_count": um + int(rng.integers(-3, 400)), "num_reserved": int(rng.integers(0, um))})
    n_mono = 150 if q else 600
    for i in range(n_mono):
        kind = ("linear", "log8", "log16")[i % 3]
        cfg = {"kind": kind, "width": int(rng.integers(1, 5)), "depth": int(rng.integers(1, 4))}
        if kind == "log8":
            cfg.update(max_count=pick(rng, [300, 1000, 5000]), num_reserved=pick(rng, [0, 5, 15]))
            if i % 4 == 1:
                # most of the range is reserved: two exact counters can add up to more than max_count
                cfg.update(max_count=pick(rng, [300, 330, 400]), num_reserved=pick(rng, [200, 240, 254]))
        elif kind == "log16":
            cfg.update(max_count=pick(rng, [70000, 10**5]), num_reserved=pick(rng, [0, 100, 1023]))
            if i % 4 == 2:
                cfg.update(max_count=pick(rng, [70000, 66000]), num_reserved=pick(rng, [40000, 60000, 65534]))
        keys = key_family(rng, 5, 0, 6)
        evs = []
        nsk = 3
        for _ in range(int(rng.integers(5, 30))):
            if rng.random() < 0.25:
                a = int(rng.integers(0, nsk))
                b = (a + 1 + int(rng.integers(0, nsk - 1))) % nsk
                evs.append(["merge", a, b])
            elif kind == "linear":
                evs.append([int(rng.integers(0, nsk)), ops.gen_op(rng, keys, big=0.5, zero=0.05)])
            else:
                evs.append([int(rng.integers(0, nsk)), ops.gen_op(rng, keys, max_value=(min(4000, cfg["max_count"] * 2 // 3) if kind == "log8" else min(30000, cfg["max_count"] * 2 // 3)), big=0.0, zero=0.05)
                            if rng.random() < 0.7 else ["add", hx(keys[0]), int(cfg["max_count"])]])
        cases.append({"type": "monotone", "cfg": cfg, "events": evs, "strangers": [hx(rand_key(rng, 0, 5))], "n": nsk})
    for i, c in enumerate(cases):
        if q or i % ns == sh:
            yield c
    if q:
        return
    while True:  # thorough: random configurations off the grid
        kind = pick(rng, ["log8", "log16"])
        um = UMAX[kind]
        mc = int(2 ** rng.uniform(8.3, 63))
        nr = int(rng.integers(0, um))
        yield {"type": "logcfg", "kind": kind, "max_count": mc, "num_reserved": nr}


def run_case(case, ctx, mon):
    {"ceiling": run_ceiling, "monotone": run_monotone, "logcfg": run_logcfg, "rowasym": run_row_asymmetric, "bigmerge": run_bigmerge}[case["type"]](case, ctx, mon)


def run(ctx, mon):
    run_cases(ctx, mon, gen_cases(ctx), run_case)


def replay(case, ctx, mon):
    run_case(case, ctx, mon)


def floors(mon, ctx):
    mon.floor("ceiling cases started by assigning the table", mon.counters["ceiling_cases_started_by_assigning_the_table"], 20)
    mon.floor("merges of nearly saturated tables of >= 4096 cells", mon.counters["big_table_merges"], 8)
    mon.floor("ceiling steps by add_ngram of a byte run (linear)", mon.counters["ceiling_steps_via_add_ngram_of_a_byte_run:linear"], 60)
    for fam in ("linear", "hh"):
        mon.floor(f"landings around the ceiling ({fam})", len(mon.classes[f"landing:{fam}"]), 7)
        mon.floor(f"steps after saturation ({fam})", mon.counters[f"steps_after_saturation:{fam}"], 50)
    for fam in ("linear", "hh"):
        mon.floor(f"ceiling steps delivered through add_ngram ({fam})", mon.counters[f"ceiling_steps_via_add_ngram:{fam}"], 20)
    mon.floor("row-asymmetric overflow cases", mon.counters["row_asymmetric_cases"], 20)
    mon.floor("rows in which the overflow was placed", len(mon.classes["row_asymmetric_row"]), 4)
    mon.floor("log configurations constructed", mon.counters["log_configs_accepted"] + mon.counters["log_configs_rejected_with_ValueError"], 100)
    mon.floor("log configurations accepted", mon.counters["log_configs_accepted"], 60)
    for kind in ("log8", "log16"):
        mon.floor(f"{kind} ceilings reached by real adds", mon.counters["log_ceilings_reached_by_real_adds:" + kind], 5)
        mon.floor(f"monotone histories {kind}", mon.counters[f"monotone_histories:{kind}"], 20)
