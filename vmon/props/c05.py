"""C05 - one add raises the key's estimate by its multiplicity and nothing else past it (linear, log16, log8)."""
from __future__ import annotations

import numpy as np

from .. import ops, state
from ..common import pick, CAP, hx, key_family, rand_key, run_cases, sk, unhx

ID = "C05"
LEVEL = "exploration"
TECHNIQUE = "per-step postcondition monitor: table and all estimates of the universe are snapshotted before every single add and re-read after it, on states reached by random histories incl. merges, for all three counter types; log types under whatever draws occur; thread stress with long kernel calls (several threads each filling their own sketch of one shape, compared with sequentially built twins) and one adding thread against querying threads on one 32-row sketch"
RULE = ("case = (counter type and configuration, width 1..16, depth 1..6, two sketches, event list of add(key, v) and merges); every add "
        "is one monitored step: key's estimate (linear) or smallest counter (log), every other key's estimate, the table diff and "
        "n_added() are compared before/after; non-trivial = case in which an added key shares a counter with another key of the "
        "universe in some row; distinct = by case digest")
ASSUMPTIONS = ["log types: multiplicities <= 5000 (the kernel loops once per unit) and small max_count so that ceilings are reached",
               "cells owned by a key are read off an empty probe sketch of the same counter type"]
LEVEL_TEXT = ("Every clause of the statement is a postcondition evaluated on every add of thousands of random histories per counter type "
              "(small widths so keys share counters; values adjacent to 2^32-1; states produced by merges).")
LEVEL_NOTE = "postconditions are those of the statement only; no assumption on which counters are raised beyond 'at most one per row, only the key's'"
BUDGET = {"quick": 75, "thorough": 360}
SHARDS = {"quick": 1, "thorough": 16}
BOUNDSCHECK = True
UMAX = {"log16": 65535, "log8": 255}
_PROBERS = {}


def prober(cfg):
    key = (cfg["kind"], cfg["width"], cfg["depth"])
    p = _PROBERS.get(key)
    if p is None:
        pc = {"kind": cfg["kind"], "width": cfg["width"], "depth": cfg["depth"]}
        p = _PROBERS[key] = state.NativeProber(pc)
    return p


def gen_case(rng, ctx, kind=None, n_events=None):
    kind = kind or state.CMS_KINDS[int(rng.integers(0, 3))]
    w = int(rng.integers(1, 4)) if rng.random() < 0.6 else int(rng.integers(4, 17))
    d = int(rng.integers(1, 7))
    cfg = {"kind": kind, "width": w, "depth": d}
    if kind == "log16":
        cfg["max_count"] = pick(rng, [70000, 10**5, 10**6, 2**32 - 1])
        cfg["num_reserved"] = pick(rng, [0, 1, 5, 100, 1023])
    elif kind == "log8":
        cfg["max_count"] = pick(rng, [300, 1000, 5000, 10**6, 2**32 - 1])
        cfg["num_reserved"] = pick(rng, [0, 1, 5, 15, 60])
    keys = key_family(rng, int(rng.integers(2, 10)), 0, 10)
    n_ev = n_events or int(rng.integers(5, 50))
    events = []
    n_self = 0
    for _ in range(n_ev):
        r = rng.random()
        if r < 0.1:
            a = int(rng.integers(0, 2))
            events.append(["merge", a, 1 - a])
        elif r < 0.13:
            events.append(["copy", int(rng.integers(0, 2)), pick(rng, ["deepcopy", "pickle", "copy", "shallow"])])
        elif r < 0.14 and n_self < 2:
            n_self += 1
            events.append(["selfmerge", int(rng.integers(0, 2)), pick(rng, [23, 30, 54, 66])])
        else:
            k = keys[int(rng.integers(0, len(keys)))]
            if kind == "linear":
                r2 = rng.random()
                v = pick(rng, [0, 1, 2, 3, 10, 1000]) if r2 < 0.7 else pick(rng, [CAP - 3, CAP - 1, CAP, CAP + 1, 2**32 + 7, 2**40, 2**31])
            else:
                r2 = rng.random()
                v = pick(rng, [0, 1, 1, 2, 3, 7]) if r2 < 0.7 else int(rng.integers(8, 5001 if kind == "log16" or cfg["max_count"] <= 5000 else 600))
                if r2 > 0.985:
                    v = pick(rng, [65536, 65537, 65536 + int(rng.integers(0, 1100)), 2**17 + 1, 2**16 - 1])
            op = ["add", hx(k), v]
            if kind != "linear" and rng.random() < 0.06:
                op.append(2048 - int(rng.integers(0, 4)))
            events.append([int(rng.integers(0, 2)), op])
    strangers = [hx(rand_key(rng, 0, 6)) for _ in range(3)]
    return {"cfg": cfg, "events": events, "strangers": strangers}


def run_case(case, ctx, mon):
    if case.get("type") == "threads":
        return run_threads(case, ctx, mon)
    if case.get("type") in ("threads_own", "adder_vs_readers"):
        from .. import thread_common

        return (thread_common.run_own_sketches if case["type"] == "threads_own" else thread_common.run_adder_vs_readers)(case, mon)
    cfg = case["cfg"]
    kind = cfg["kind"]
    w, d = cfg["width"], cfg["depth"]
    real = [state.make(cfg), state.make(cfg)]
    pr = prober(cfg)
    universe = ops.universe_of([e[1] for e in case["events"] if isinstance(e[0], int)], extra=[unhx(s) for s in case["strangers"]])
    cells = {k: pr.cells(k) for k in universe}
    rows = np.arange(d)
    cellidx = {k: (rows, np.array(cells[k])) for k in universe}
    is_log = kind != "linear"
    nr = int(real[0].num_reserved) if is_log else None
    umax = UMAX.get(kind)
    shared_any = False
    for ev in case["events"]:
        if ev[0] == "merge":
            mon.api(real[ev[1]].merge, real[ev[2]])
            mon.count("merges")
            continue
        if ev[0] == "copy":
            real[ev[1]] = mon.api(state.duplicate, real[ev[1]], ev[2])
            mon.count("copies:" + ev[2])
            continue
        if ev[0] == "selfmerge":
            for _ in range(ev[2]):
                real[ev[1]].merge(real[ev[1]])  # doubles n_added(): a few dozen of these take it past 2^53 and 2^64
            mon.count("self_merge_runs")
            continue
        i, op = ev
        key, v = unhx(op[1]), int(op[2])
        s = real[i]
        T0 = s.cms.copy()
        E0 = {k: s.query(k) for k in universe}
        N0 = int(s.n_added())
        c0 = int(T0[cellidx[key]].min())
        if is_log and len(op) > 3:
            s.rand_ptr = int(op[3])  # place the add so that it consumes the last draws of the current batch
            mon.count("log_adds_straddling_a_batch_end")
        # the multiplicity is passed positionally or under its documented name
        form = (len(key) + int(v)) % 5
        if form == 3:
            mon.api(s.add, key, value=v)
        elif form == 4:
            mon.api(s.add, key=key, value=v)
        else:
            mon.api(s.add, key, v)
        T1 = s.cms
        E1 = {k: s.query(k) for k in universe}
        N1 = int(s.n_added())
        c1 = int(T1[cellidx[key]].min())
        det = dict(kind=kind, key=op[1], v=v, cfg=cfg)
        sharing = any(cells[j][r] == cells[key][r] for j in universe if j != key for r in range(d))
        shared_any = shared_any or sharing
        if sharing:
            mon.count(f"adds_with_shared_cell:{kind}")
        # -- the key itself
        if not is_log:
            want = min(int(E0[key]) + v, CAP)
            mon.check(int(E1[key]) == want, "linear:estimate'==min(estimate+v,cap)", got=int(E1[key]), want=want, old=int(E0[key]), **det)
            cut_short = int(E0[key]) + v > CAP
        else:
            step = c1 - c0
            mon.check(0 <= step <= v, "log:counter-advances-by-0..v", old_counter=c0, new_counter=c1, **det)
            if c0 + v <= nr + 1:
                mon.check(step == v, "log:exact-in-reserved-range(counter)", old_counter=c0, new_counter=c1, num_reserved=nr, **det)
                mon.check(float(E1[key]) == float(E0[key]) + v, "log:exact-in-reserved-range(estimate)", old=float(E0[key]), new=float(E1[key]),
                          num_reserved=nr, **det)
                mon.count("log_adds_in_reserved_range")
            else:
                mon.count("log_adds_probabilistic")
            cut_short = c1 >= umax
        # -- everybody else
        ek = E1[key]
        for j in universe:
            if E1[j] < E0[j]:
                mon.check(False, "no-estimate-decreases", other=hx(j), old=float(E0[j]), new=float(E1[j]), **det)
            if j != key and E1[j] > max(E0[j], ek):
                mon.check(False, "other-key-not-above-max(own-old,key-new)", other=hx(j), old=float(E0[j]), new=float(E1[j]),
                          key_new=float(ek), **det)
        mon.tick("no-estimate-decreases", len(universe))
        mon.tick("other-key-not-above-max(own-old,key-new)", len(universe) - 1)
        # -- table diff: at most one counter per row changes, and only the key's
        changed = np.argwhere(T1 != T0)
        ok_rows = len({int(r) for r, _ in changed}) == len(changed)
        ok_cells = all(int(c) == cells[key][int(r)] for r, c in changed)
        mon.check(ok_rows and ok_cells, "at-most-one-counter-per-row-and-only-the-key's", changed=changed[:8].tolist(),
                  key_cells=list(cells[key]), **det)
        # -- bookkeeping
        if not cut_short:
            mon.check(N1 - N0 == v, "n_added-grows-by-v", old=N0, new=N1, **det)
        else:
            mon.count(f"cut_short_adds:{kind}")
            mon.check(0 <= N1 - N0 <= max(v, 0), "n_added-grows-by-at-most-v-when-cut-short", old=N0, new=N1, **det)
        mon.count(f"adds:{kind}")
    mon.nontrivial(shared_any)
    mon.seen("kind", kind)
    mon.seen("width", w)


def run_threads(case, ctx, mon):
    """Several Python threads add to ONE sketch, each to keys that own private counters: afterwards every key must hold
    exactly what its thread added and n_added() the total (an add must take effect as a whole)."""
    import threading

    kind, n_thr, n_adds = case["kind"], case["threads"], case["adds"]
    cfg = {"kind": kind, "width": 256, "depth": 3}
    if kind != "linear":
        cfg.update(max_count=2**32 - 1, num_reserved=(15 if kind == "log8" else 1023))
    s = state.make(cfg)
    pr = prober(cfg)
    rng = np.random.default_rng(case["seed"])
    keys, used = [], [set() for _ in range(3)]
    while len(keys) < n_thr:
        k = bytes(rng.integers(0, 256, 6, dtype=np.uint8))
        c = pr.cells(k)
        if all(c[r] not in used[r] for r in range(3)):
            for r in range(3):
                used[r].add(c[r])
            keys.append(k)
    per = 10 if kind == "log8" else 300  # stay inside the exact range of the log types
    barrier = threading.Barrier(n_thr)

    def work(k):
        barrier.wait()
        for i in range(n_adds):
            s.add(k, 1)
            if i % 7 == 0:
                s.query(k)

    n_adds = min(n_adds, per)
    ts = [threading.Thread(target=work, args=(k,)) for k in keys]
    for t in ts:
        t.start()
    for t in ts:
        t.join()
    for k in keys:
        mon.check(float(s.query(k)) == float(n_adds), "threads:key-with-private-counters-holds-exactly-its-adds", kind=kind, key=hx(k), got=float(s.query(k)), want=n_adds,
                  threads=n_thr)
    mon.check(int(s.n_added()) == n_adds * n_thr, "threads:n_added==total", kind=kind, got=int(s.n_added()), want=n_adds * n_thr)
    mon.count("thread_stress_cases")
    mon.count("thread_stress_adds", n_adds * n_thr)
    mon.nontrivial(True)


def gen_cases(ctx):
    rng = ctx.rng("cases")
    # long kernel calls from several threads: own sketches of one shape, and one adder against readers (vmon/thread_common.py; round 8)
    for kind in state.CMS_KINDS:
        for rep in range(1 if ctx.quick else 4):
            yield {"type": "threads_own", "kind": kind, "threads": 6, "seed": 2000 + rep + 17 * ctx.shard}
            yield {"type": "adder_vs_readers", "kind": kind, "adds": 20000, "readers": 3, "seed": 3000 + rep + 17 * ctx.shard}
    for kind in state.CMS_KINDS:
        for rep in range(2 if ctx.quick else 6):
            yield {"type": "threads", "kind": kind, "threads": 8, "adds": 300, "seed": int(rng.integers(0, 2**31))}
    # long-lived objects: one history of 4000 events per counter type (anything that ages - caches, pointers, counters of calls)
    for kind in state.CMS_KINDS:
        if ctx.quick or ctx.shard % 3 == state.CMS_KINDS.index(kind):
            c = gen_case(rng, ctx, kind, n_events=4000)
            c["long"] = True
            yield c
    n = 3000 if ctx.quick else 10**9
    for i in range(n):
        yield gen_case(rng, ctx, state.CMS_KINDS[i % 3])


def run(ctx, mon):
    run_cases(ctx, mon, gen_cases(ctx), run_case)


def replay(case, ctx, mon):
    run_case(case, ctx, mon)


def floors(mon, ctx):
    for kind in state.CMS_KINDS:
        mon.floor(f"adds with a shared cell ({kind})", mon.counters[f"adds_with_shared_cell:{kind}"], 200)
    mon.floor("cut-short adds (linear)", mon.counters["cut_short_adds:linear"], 10)
    mon.floor("log adds in the reserved range", mon.counters["log_adds_in_reserved_range"], 200)
    mon.floor("log adds in the probabilistic range", mon.counters["log_adds_probabilistic"], 200)
    mon.floor("log adds straddling the end of a draw batch", mon.counters["log_adds_straddling_a_batch_end"], 50)
    mon.floor("thread stress cases", mon.counters["thread_stress_cases"], 6)
