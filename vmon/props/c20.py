"""C20 - a truncated sketch file is never loaded as a sketch.

Fault enumeration over crash points: every strict prefix (byte offsets 0..len-1) of files written by
save(), for all five classes, through the class loaders and the module-level load().
"""
from __future__ import annotations

import os

import numpy as np

from .. import ops, state
from ..common import pick, hx, key_family, sk, unhx

ID = "C20"
LEVEL = "fault_enumeration"
TECHNIQUE = "fault injection at every byte offset of saved files + 'must raise' oracle on the real loaders; tables whose bytes spell complete and partial inner archives"
RULE = ("case = one file written by save() of a sketch reached by a random history (class, shape, history); every "
        "strict prefix of the file is handed to every applicable loader; non-trivial = the sketch was non-empty "
        "and the full file loaded back to the saved state; distinct = by (config, history) digest; variants: saved over an older larger "
        "file, next to a complete sibling <stem>.npz, from a shared-memory sketch, right after same-shaped sketches of wider classes were "
        "saved by the process, files above 1 MiB (tail + sample of offsets), table bytes that spell an inner archive")
ASSUMPTIONS = [
    "a crash during save() leaves a prefix of the final file (np.savez writes the zip sequentially)",
    "files of 0.6-40 kB; larger files have the same zip structure with longer member bodies",
]
BUDGET = {"quick": 60, "thorough": 240}
SHARDS = {"quick": 1, "thorough": 16}


def shapes(ctx, rng):
    q = ctx.quick
    out = []
    out.append({"kind": "linear", "width": int(rng.integers(1, 40)), "depth": int(rng.integers(1, 5))})
    out.append({"kind": "linear", "width": 97 if q else int(rng.integers(200, 900)), "depth": 3})
    out.append({"kind": "log16", "width": int(rng.integers(1, 60)), "depth": int(rng.integers(1, 5)),
                "max_count": pick(rng, [2**32 - 1, 10**6, 70000]), "num_reserved": pick(rng, [1023, 0, 100])})
    out.append({"kind": "log16", "width": 150 if q else int(rng.integers(300, 2000)), "depth": 2})
    out.append({"kind": "log8", "width": int(rng.integers(1, 80)), "depth": int(rng.integers(1, 5)),
                "max_count": pick(rng, [2**32 - 1, 10**6, 1000]), "num_reserved": pick(rng, [15, 0, 100])})
    out.append({"kind": "log8", "width": 400 if q else int(rng.integers(600, 4000)), "depth": 3})
    out.append({"kind": "hh", "width": int(rng.integers(1, 12)), "depth": int(rng.integers(1, 4)),
                "max_key_len": int(rng.integers(1, 17))})
    out.append({"kind": "hh", "width": 20 if q else int(rng.integers(30, 120)), "depth": 2, "max_key_len": 8})
    out.append({"kind": "hll", "p": 7, "seed": int(rng.integers(0, 2**63)) * 2 + 1})
    if not q:
        out.append({"kind": "hll", "p": int(rng.integers(8, 13)), "seed": 0})
        out.append({"kind": "hh", "width": 1, "depth": 1, "max_key_len": 3})
    return out


def loaders_for(kind):
    base = _loaders_for(kind)
    # every loader also with shared_memory=True (a different code path: the block is allocated before the arrays are read)
    return base + [(name + "(shared_memory=True)", (lambda p, _f=fn: _f(p, True))) for name, fn in base]


def _loaders_for(kind):
    s = sk()
    if kind == "linear":
        return [("CountMinLinear.load", s.CountMinLinear.load), ("countmin.load", s.countmin.load)]
    if kind == "log16":
        return [("CountMinLog16.load", s.CountMinLog16.load), ("countmin.load", s.countmin.load)]
    if kind == "log8":
        return [("CountMinLog8.load", s.CountMinLog8.load), ("countmin.load", s.countmin.load)]
    if kind == "hh":
        return [("HeavyHitters.load", s.HeavyHitters.load)]
    return [("HyperLogLog.load", s.HyperLogLog.load)]


def gen_cases(ctx):
    rng = ctx.rng("shapes")
    rounds = 2 if ctx.quick else 10**6
    for rd in range(rounds):
        for i, cfg in enumerate(shapes(ctx, rng)):
            keys = key_family(rng, 8, 0, 12)
            n_ops = int(rng.integers(3, 25))
            hist = [ops.gen_op(rng, keys, max_value=50 if cfg["kind"] in ("log16", "log8") else None) for _ in range(n_ops)]
            yield {"cfg": cfg, "history": hist, "offsets": "all", "overwrite": bool((i + rd) % 2), "sibling": bool((i + rd) % 3 == 0),
                   "shm_backed": bool((i + 2 * rd) % 4 == 1), "after_same_shape": bool((i + rd) % 2 == 0 or rd == 0)}
    # size-gated code paths (preallocation, chunked writers) only show on large sketches: one file above 1 MiB per class family
    big = [{"kind": "hh", "width": 2048, "depth": 4, "max_key_len": 128}, {"kind": "linear", "width": 70000, "depth": 4},
           {"kind": "log8", "width": 300000, "depth": 4, "max_count": 2**32 - 1, "num_reserved": 15}, {"kind": "hll", "p": 16, "seed": 1}]
    for j, cfg in enumerate(big if not ctx.quick else big[:2]):
        if ctx.quick or j % ctx.nshards == ctx.shard:
            yield {"cfg": cfg, "history": [["add", "6162", 3], ["add", "63", 1]], "offsets": "tail+sample", "overwrite": False}
    yield {"cfg": {"kind": "linear", "width": 600, "depth": 2}, "history": [["add", "61", 3]], "offsets": "all", "embed": True}
    yield {"cfg": {"kind": "hll", "p": 12, "seed": 0}, "history": [["add", "61", 3]], "offsets": "all", "embed": True}
    # tables whose bytes spell a well-formed archive with only some of the members of a saved sketch (round 7, seed C20-M)
    for cfg in ({"kind": "linear", "width": 600, "depth": 2}, {"kind": "log16", "width": 900, "depth": 2, "max_count": 2**32 - 1, "num_reserved": 1023},
                {"kind": "log8", "width": 1500, "depth": 2, "max_count": 2**32 - 1, "num_reserved": 15}, {"kind": "hll", "p": 12, "seed": 0},
                {"kind": "hh", "width": 64, "depth": 2, "max_key_len": 24}):
        for part in ("args", "drop_last", "drop_second"):
            yield {"cfg": cfg, "history": [["add", "61", 3]], "offsets": "around-embedded", "embed_partial": part}


def run_case(case, ctx, mon):
    cfg = case["cfg"]
    kind = cfg["kind"]
    sketch = state.make(cfg, shared_memory=bool(case.get("shm_backed")))
    if case.get("shm_backed"):
        mon.count("files_saved_from_shared_memory_sketches")
    for op in case["history"]:
        mon.api(ops.apply_op, sketch, op)
    blob = None
    if case.get("embed") or case.get("embed_partial"):
        # adversarial counter contents: the table's bytes spell a complete saved sketch (a smaller one of the same class), or
        # ("embed_partial") a well-formed archive that holds only SOME of the members a saved sketch has - the unchanged loaders
        # raise on such an archive (a member they read is missing), so a prefix ending after it must raise as well
        inner = state.make(dict(cfg, width=3, depth=1) if kind != "hll" else dict(cfg, p=7))
        inner.add(b"inner", 2)
        ipath = state.tmp_path(".npz")
        inner.save(ipath)
        if case.get("embed_partial"):
            import io

            with np.load(ipath) as z:
                names = list(z.files)
                keep = ["args"] if case["embed_partial"] == "args" else names[:-1] if case["embed_partial"] == "drop_last" else names[:1] + names[2:]
                keep = [n for n in keep if n in names] or names[:1]
                buf = io.BytesIO()
                np.savez(buf, **{n: z[n] for n in keep})
            blob = buf.getvalue()
            mon.seen("members_of_partial_inner_archive", ",".join(keep) + " of " + ",".join(names))
        else:
            blob = open(ipath, "rb").read()
        os.unlink(ipath)
        attr = {"hh": "lhh", "hll": "registers"}.get(kind, "cms")
        arr = getattr(sketch, attr)
        flat = np.ascontiguousarray(arr).reshape(-1).view(np.uint8).copy()
        if len(flat) >= len(blob) + 8:
            flat[4: 4 + len(blob)] = np.frombuffer(blob, np.uint8)
            arr[...] = flat.view(arr.dtype).reshape(arr.shape)
            mon.count("files_with_a_partial_archive_embedded_in_the_table" if case.get("embed_partial") else "files_with_an_archive_embedded_in_the_table")
        else:
            blob = None
    snap = state.snapshot(sketch)
    nonempty = any(np.any(snap[a]) for a in state.ARRAYS[kind])
    path = state.tmp_path(".npz")
    try:
        if case.get("overwrite"):
            # the path already holds an older, larger checkpoint of the same class (save() must replace it completely)
            big = dict(cfg)
            if kind == "hll":
                big["p"] = min(16, cfg["p"] + 2)
            else:
                big["width"] = cfg["width"] * 3 + 7
            older = state.make(big)
            older.add(b"older-checkpoint", 3)
            mon.api(older.save, path)
            mon.count("files_saved_over_an_older_larger_file")
        if case.get("after_same_shape") and kind in ("log16", "log8"):
            # sketches of the wider classes with the same table shape were saved by this process just before (anything sized,
            # reserved or remembered per shape by an earlier save must not leak into this file)
            for k2 in ("linear", "log16"):
                if k2 != kind and not (kind == "log16" and k2 == "log16"):
                    o = state.make({"kind": k2, "width": cfg["width"], "depth": cfg["depth"]})
                    o.add(b"earlier-save", 2)
                    p2 = state.tmp_path(".npz")
                    o.save(p2)
                    os.unlink(p2)
            mon.count("files_saved_after_same_shaped_sketches_of_wider_classes")
        mon.api(sketch.save, path)
        size = os.path.getsize(path)
        mon.seen("file_size", size)
        # the complete file loads to the saved state
        for name, loader in loaders_for(kind):
            loaded = mon.api(loader, path)
            diff = state.snap_diff(snap, state.snapshot(loaded))
            mon.check(not diff, "complete-file-loads-to-saved-state", loader=name, differs_in=diff, cfg=cfg)
            del loaded
        mon.nontrivial(nonempty)
        full = open(path, "rb").read()
        sig = b"PK\x05\x06"  # end-of-central-directory signature
        outer_eocd = full.rfind(sig)
        offs = case.get("offsets", "all")
        if offs == "tail+sample":
            # large files (1 MB and more): every offset of the last 6 kB, every offset of the first 600 bytes, and a sample between
            rs = np.random.default_rng(size)
            offs = set(range(max(0, size - 6000), size)) | set(range(0, min(size, 600))) | set(int(x) for x in rs.integers(0, size, 1500))
            mon.count("large_files")
        if offs == "around-embedded":
            # every offset from just before the end of the inner archive to 400 bytes after it, the file's own tail, and a sample
            pos = full.find(blob) + len(blob) if blob is not None and full.find(blob) >= 0 else size // 2
            rs = np.random.default_rng(size)
            offs = set(range(max(0, pos - 60), min(size, pos + 400))) | set(range(max(0, size - 120), size)) | set(int(x) for x in rs.integers(0, size, 200))
            mon.count("files_with_partial_archive_found_in_the_saved_bytes", int(blob is not None and full.find(blob) >= 0))
        offsets = range(size - 1, -1, -1) if offs == "all" else sorted((int(o) for o in offs), reverse=True)
        for off in offsets:
            os.truncate(path, off)
            for name, loader in loaders_for(kind):
                try:
                    obj = loader(path)
                except Exception as exc:  # noqa: BLE001  any exception is the required behaviour
                    mon.evaluations += 1
                    mon.by_clause["prefix-must-raise"] += 1
                    mon.counters["raised:" + type(exc).__name__] += 1
                    continue
                inner_eocd = full[:off].rfind(sig)
                mon.check(False, "prefix-must-raise", loader=name, offset=off, file_size=size,
                          returned=type(obj).__name__, cfg=cfg,
                          embedded_archive_in_payload=bool(0 <= inner_eocd < outer_eocd and case.get("embed")))
            mon.count("prefixes_tried")
        if case.get("sibling"):
            # the complete file exists as <stem>.npz; its prefixes are written to <stem>.part / <stem>.tmp / <stem> beside it
            import shutil

            d = os.path.dirname(str(path))
            stem = os.path.join(d, "vmon-sib-%d" % os.getpid())
            open(stem + ".npz", "wb").write(full)
            try:
                for off in sorted({0, 1, 10, size // 3, size // 2, size - 30, size - 2, size - 1} & set(range(size))):
                    for ext in (".part", ".tmp", "", ".npz.partial"):
                        trunc = stem + ext
                        open(trunc, "wb").write(full[:off])
                        for name, loader in loaders_for(kind):
                            try:
                                obj = loader(trunc)
                            except Exception:  # noqa: BLE001
                                mon.tick("prefix-must-raise")
                                continue
                            mon.check(False, "prefix-must-raise", loader=name, offset=off, file_size=size, returned=type(obj).__name__, cfg=cfg,
                                      truncated_name=os.path.basename(trunc), complete_sibling=os.path.basename(stem + ".npz"))
                        os.unlink(trunc)
                mon.count("files_with_a_complete_sibling")
            finally:
                for ext in (".npz", ".part", ".tmp", "", ".npz.partial"):
                    try:
                        os.unlink(stem + ext)
                    except OSError:
                        pass
        mon.count("files")
        mon.count("files:" + kind)
    finally:
        try:
            os.unlink(path)
        except OSError:
            pass


def run(ctx, mon):
    from ..common import run_cases

    state.fast_del(True)  # loads with shared_memory=True that succeed are dropped at once (no 0.25 s pause per sketch)
    run_cases(ctx, mon, gen_cases(ctx), run_case)
    mon.extra(exhaustive=True)


def replay(case, ctx, mon):
    state.fast_del(True)
    run_case(case, ctx, mon)


def floors(mon, ctx):
    mon.floor("files saved right after same-shaped sketches of wider classes", mon.counters["files_saved_after_same_shaped_sketches_of_wider_classes"], 3)
    for k in state.ALL_KINDS:
        mon.floor(f"files of class {k}", mon.counters.get("files:" + k, 0), 1)
    mon.floor("prefix loads", mon.by_clause.get("prefix-must-raise", 0), 5000)
    mon.floor("files whose table spells a partial archive", mon.counters["files_with_partial_archive_found_in_the_saved_bytes"], 10)
    mon.floor("files saved over an older, larger file", mon.counters["files_saved_over_an_older_larger_file"], 5)
    mon.floor("files with a complete sibling of the same stem", mon.counters["files_with_a_complete_sibling"], 3)
    mon.floor("files saved from shared-memory sketches", mon.counters["files_saved_from_shared_memory_sketches"], 3)
