"""C11 - fasthash64 / fasthash32 / murmur3 equal the published algorithms, as pure functions of (bytes, seed)."""
from __future__ import annotations

import hashlib
import os
import subprocess
import sys

import numpy as np

from ..common import HOT_BYTES, hx, pick, run_cases, sk, unhx, VERIF_HOME
from ..refs import hashes_ref

ID = "C11"
LEVEL = "exploration"
TECHNIQUE = "differential monitor: real jitted hashes vs independent pure-Python reference (+ published vectors, + ASan/UBSan-built C reference in the thorough tier), purity monitor across object provenance, call history and a second interpreter"
RULE = ("case = one batch of (bytes, seed) inputs of one length class; every length 0..257 is covered, byte values are biased to "
        "00/7f/80/ff, seeds include 0, 1, 2^32-1, 2^32, 2^63, 2^64-1; each input is hashed by the three real functions and "
        "by the references; the same bytes are rebuilt six ways and sliced at offsets 0..15; non-trivial = batch with "
        "length >= 1 (tail or block code exercised); distinct = by input digest; steered batches: for every length 0..41 and some longer, "
        "every internal state position x 13 (8 for murmur3) special values, constructed by inverting the reference")
ASSUMPTIONS = ["the references were written from the published FastHash/MurmurHash3 sources and validated against published Murmur3 vectors",
               "lengths 0..257 exhaustively, ~40 lengths up to 65539 and four between 1 and 3 MiB stand for all lengths: the algorithms are block loops plus a tail switch"]
LEVEL_TEXT = ("Differential run-time comparison of the three real hash functions with independent references on tens of "
              "thousands (quick) to millions (thorough) of hostile inputs covering every block/tail combination, plus purity "
              "observations (object provenance, call history, second process with another PYTHONHASHSEED).")
LEVEL_NOTE = "trusted: the pure-Python reference (cross-checked against published vectors and, in thorough, a sanitizer-built C twin)"
BUDGET = {"quick": 60, "thorough": 240}
SHARDS = {"quick": 1, "thorough": 16}

SEEDS64 = [0, 1, 2**32 - 1, 2**32, 2**63, 2**64 - 1, 5, 0x9747B28C]
SEEDS32 = [0, 1, 2**31, 2**32 - 1, 5, 0x9747B28C]


def rand_bytes(rng, n, mode):
    if n == 0:
        return b""
    if mode == 0:
        return bytes(HOT_BYTES[rng.integers(0, len(HOT_BYTES), n)])
    if mode == 1:
        return bytes(rng.integers(0, 256, n, dtype=np.uint8))
    if mode == 2:
        return bytes([0xFF]) * n
    if mode == 3:
        return bytes(n)
    return bytes(rng.integers(0x80, 0x100, n, dtype=np.uint8))


def gen_cases(ctx):
    rng = ctx.rng("inputs")
    max_len = 257
    reps = 2 if ctx.quick else 10**9
    rep = 0
    while rep < reps:
        lengths = list(range(0, max_len + 1))
        if rep == 0:
            # beyond the exhaustive 0..257 sweep: long keys (unrolled / vectorised block loops start somewhere)
            lengths += [258, 300, 511, 512, 513, 519, 520, 1000, 1023, 1024, 1025, 2048, 4095, 4096, 4097, 8191, 8200, 65536 + 3]
            lengths += [int(x) for x in rng.integers(258, 5000, 12)]
            # beyond 1 MiB (windowed / threaded paths for very long keys start somewhere): block counts that are not multiples of 2^17
            lengths += [2**20 + 8, 2**20 + 13, 2**21 + 40, 3 * 2**20 + 5]
        if ctx.thorough and rep % 4 == 3:
            lengths = [int(x) for x in rng.integers(258, 4097, 40)]
        for n in lengths:
            inputs = []
            for j in range((12 if ctx.quick else 16) if n < 2**20 else 3):
                mode = int(rng.integers(0, 5)) if j > 4 else j % 5
                b = rand_bytes(rng, n, mode)
                s64 = SEEDS64[j % len(SEEDS64)] if j < 8 else int(rng.integers(0, 2**64, dtype=np.uint64))
                s32 = SEEDS32[j % len(SEEDS32)] if j < 8 else int(rng.integers(0, 2**32))
                inputs.append([hx(b), s64, s32])
            yield {"len": n, "inputs": inputs}
        rep += 1


SPECIAL64 = [0, 1, 2**64 - 1, 2**64 - 2, 2**63, 2**63 - 1, 2**32, 2**32 - 1, hashes_ref.FH_M, hashes_ref.FH_MIX,
             0x0000000100000001, (5 << 32) | 4, 0xFFFFFFFF00000000]
SPECIAL32 = [0, 1, 2**32 - 1, 2**32 - 2, 2**31, 2**31 - 1, 0xE6546B64, 2**16]


def gen_steered(ctx):
    """Inputs built by inverting the block functions of the *reference* so that one internal state (before any block, after any
    block, after the tail) or the returned value is a special value (0, all-ones, 2^63, the multipliers, values whose 32-bit fold
    is 0 or 2^32-1).  Random inputs reach such states with probability 2^-64 / 2^-32 each."""
    rng = ctx.rng("steered")
    lengths = list(range(0, 42)) + [48, 63, 64, 65, 71, 72, 100, 257]
    if ctx.thorough:
        lengths += [int(x) for x in rng.integers(42, 600, 30)]
    for n in lengths:
        inputs = []
        base = bytes(rng.integers(0, 256, n, dtype=np.uint8))
        seed = int(rng.integers(0, 2**64, dtype=np.uint64))
        n_states = len(hashes_ref.fasthash64_states(base, seed))
        idxs = list(range(n_states)) if n_states <= 8 else [0, 1, 2, n_states - 3, n_states - 2, n_states - 1]
        for idx in idxs + ["out"]:
            for v in SPECIAL64:
                b, sd = hashes_ref.fasthash64_steer(base, seed if rng.random() < 0.7 else pick(rng, SEEDS64), idx, v)
                inputs.append(["fh", hx(b), sd, idx, v])
        seed32 = int(rng.integers(0, 2**32))
        n_states = len(hashes_ref.murmur3_states(base, seed32))
        idxs = list(range(n_states)) if n_states <= 8 else [0, 1, 2, n_states - 3, n_states - 2, n_states - 1]
        for idx in idxs + ["out"]:
            for v in SPECIAL32:
                b, sd = hashes_ref.murmur3_steer(base, seed32 if rng.random() < 0.7 else pick(rng, SEEDS32), idx, v)
                inputs.append(["mm", hx(b), sd, idx, v])
        yield {"steered": True, "len": n, "inputs": inputs}


def run_steered(case, ctx, mon):
    s = sk()
    f64, f32, mm3 = s.hashes.fasthash64, s.hashes.fasthash32, s.hashes.murmur3
    for fam, kh, seed, idx, v in case["inputs"]:
        b = unhx(kh)
        if fam == "fh":
            st = hashes_ref.fasthash64_states(b, seed)
            r64 = hashes_ref.fasthash64(b, seed)
            hit = (r64 == v) if idx == "out" else (st[idx] == v)
            g64 = int(mon.api(f64, b, seed))
            mon.check(g64 == r64, "fasthash64==reference(steered-state)", key=kh, seed=seed, state_index=idx, state_value=v, got=g64, want=r64)
            g32 = int(mon.api(f32, b, seed))
            r32 = hashes_ref.fasthash32(b, seed)
            mon.check(g32 == r32, "fasthash32==reference(steered-state)", key=kh, seed=seed, state_index=idx, state_value=v, got=g32, want=r32)
            mon.seen("steered_fh", f"{'out' if idx == 'out' else ('first' if idx == 0 else ('last' if idx == len(st) - 1 else 'inner'))}:{v:x}")
            if r32 in (0, 0xFFFFFFFF):
                mon.count("steered_fasthash32_extreme_outputs")
        else:
            st = hashes_ref.murmur3_states(b, seed)
            rm = hashes_ref.murmur3_32(b, seed)
            hit = (rm == v) if idx == "out" else (st[idx] == v)
            gm = int(mon.api(mm3, b, seed))
            mon.check(gm == rm, "murmur3==reference(steered-state)", key=kh, seed=seed, state_index=idx, state_value=v, got=gm, want=rm)
            mon.seen("steered_mm", f"{'out' if idx == 'out' else ('first' if idx == 0 else ('last' if idx == len(st) - 1 else 'inner'))}:{v:x}")
        mon.check(hit, "harness:steering-reached-the-requested-state", family=fam, key=kh, seed=seed, state_index=idx, state_value=v)
        mon.count("steered_inputs")
    mon.nontrivial(True)


def variants(b: bytes):
    """The same byte string produced in different ways (object provenance must not matter)."""
    ba = bytearray(b)
    yield "bytes(bytearray)", bytes(ba)
    yield "memoryview.tobytes", memoryview(ba).tobytes()
    yield "join", b"".join(bytes([x]) for x in b)
    yield "ndarray.tobytes", np.frombuffer(b, np.uint8).copy().tobytes() if b else b""
    for off in (1, 3, 7, 8, 15):
        big = bytes(off) + b + b"\xaa" * 5
        yield f"slice@{off}", big[off: off + len(b)]


def run_case(case, ctx, mon):
    s = sk()
    f64, f32, mm3 = s.hashes.fasthash64, s.hashes.fasthash32, s.hashes.murmur3
    n = case["len"]
    mon.nontrivial(n >= 1)
    mon.seen("len_mod_8", n % 8)
    mon.seen("len_mod_4", n % 4)
    mon.seen("nblocks64", min(n // 8, 40))
    for i, (kh, s64, s32) in enumerate(case["inputs"]):
        b = unhx(kh)
        r64 = hashes_ref.fasthash64(b, s64)
        g64 = int(mon.api(f64, b, s64))
        mon.check(g64 == r64, "fasthash64==reference", key=kh, seed=s64, got=g64, want=r64)
        r32 = hashes_ref.fasthash32(b, s64)
        g32 = int(mon.api(f32, b, s64))
        mon.check(g32 == r32, "fasthash32==reference", key=kh, seed=s64, got=g32, want=r32)
        rm = hashes_ref.murmur3_32(b, s32)
        gm = int(mon.api(mm3, b, s32))
        mon.check(gm == rm, "murmur3==reference", key=kh, seed=s32, got=gm, want=rm)
        mon.seen("seed64", s64 if s64 in SEEDS64 else "random")
        if i < 2:
            # purity: recompute after unrelated calls, and from differently produced objects
            f64(b"unrelated" * 3, 77)
            mm3(b"zz", 1)
            mon.check(int(f64(b, s64)) == g64 and int(mm3(b, s32)) == gm and int(f32(b, s64)) == g32, "pure-under-call-history", key=kh)
            for how, vb in variants(b):
                mon.check(int(f64(vb, s64)) == r64, "fasthash64-provenance:" + how.split("@")[0], key=kh, seed=s64, how=how)
                mon.check(int(mm3(vb, s32)) == rm, "murmur3-provenance:" + how.split("@")[0], key=kh, seed=s32, how=how)
                mon.check(int(f32(vb, s64)) == r32, "fasthash32-provenance:" + how.split("@")[0], key=kh, seed=s64, how=how)
    mon.count("inputs", len(case["inputs"]))


def run_kernel_slices(case, ctx, mon):
    """fasthash64 on slices made *inside* jitted code (arbitrary alignment, one to several 8-byte blocks): observed through
    HyperLogLog.add_ngram, whose registers must be those of the reference hash over every window."""
    from ..refs import hll_ref

    s = sk()
    key = unhx(case["key"])
    n, seed, p = case["ngram"], case["seed"], 16
    h = s.HyperLogLog(p, seed)
    mon.api(h.add_ngram, key, n)
    wins = hll_ref.windows(key, n)
    want = hll_ref.registers_for(wins, p, seed)
    bad = np.flatnonzero(np.asarray(h.registers) != want)
    mon.check(len(bad) == 0, "fasthash64-on-in-kernel-slices==reference(via add_ngram)", key=case["key"], ngram=n, seed=seed,
              n_windows=len(wins), n_bad_registers=int(len(bad)))
    mon.count("kernel_slice_windows", len(wins))
    mon.seen("kernel_slice_len_class", "multi-block" if n >= 16 else ("one-block" if n >= 8 else "tail-only"))
    mon.nontrivial(len(wins) > 1)


_VIEW_FNS = None


def view_fns():
    """Harness-side jitted wrappers that call the public hashes on a view made inside jitted code (buf[i:j])."""
    global _VIEW_FNS
    if _VIEW_FNS is None:
        import numba

        s = sk()
        f64, f32, mm3 = s.hashes.fasthash64, s.hashes.fasthash32, s.hashes.murmur3

        @numba.njit
        def v64(buf, i, j, seed):
            return f64(buf[i:j], seed)

        @numba.njit
        def v32(buf, i, j, seed):
            return f32(buf[i:j], seed)

        @numba.njit
        def vmm(buf, i, j, seed):
            return mm3(buf[i:j], seed)

        try:
            v64(b"abcdefgh-warm", 0, 8, np.uint64(1)), v32(b"abcdefgh-warm", 0, 8, np.uint64(1)), vmm(b"abcdefgh-warm", 0, 8, np.uint32(1))
            _VIEW_FNS = (v64, v32, vmm)
        except Exception:  # noqa: BLE001  (a tree whose public hashes are plain Python wrappers cannot be called from jitted code)
            _VIEW_FNS = False
    return _VIEW_FNS or None


def run_kernel_views(case, ctx, mon):
    """All three public hashes called from jitted code on zero-copy views of a larger buffer (every start alignment, the
    byte after the view is never NUL): the result must be that of the same bytes as an ordinary bytes object."""
    fns = view_fns()
    if fns is None:
        mon.count("kernel_view_cases_skipped(hashes_not_callable_from_jitted_code)")
        return
    v64, v32, vmm = fns
    buf = unhx(case["buf"])
    n = len(buf)
    bad = 0
    for (i, j) in case["views"]:
        b = buf[i:j]
        s64, s32 = case["seed64"], case["seed32"]
        g = (int(v64(buf, i, j, np.uint64(s64))), int(v32(buf, i, j, np.uint64(s64))), int(vmm(buf, i, j, np.uint32(s32))))
        w = (hashes_ref.fasthash64(b, s64), hashes_ref.fasthash32(b, s64), hashes_ref.murmur3_32(b, s32))
        for name, gg, ww in zip(("fasthash64", "fasthash32", "murmur3"), g, w):
            mon.check(gg == ww, f"{name}-on-jitted-view==reference", view=[i, j], length=j - i, got=gg, want=ww, seed=s64 if name != "murmur3" else s32)
    mon.count("kernel_views", len(case["views"]))
    mon.nontrivial(True)


def zero_key_reference(n, seed):
    """fasthash64 of n zero bytes in closed form: mix(0) == 0, so every zero block only multiplies the state by m."""
    M = hashes_ref.M64
    h = (seed ^ ((n * hashes_ref.FH_M) & M)) & M
    h = (h * pow(hashes_ref.FH_M, n // 8, 1 << 64)) & M
    if n % 8:
        h = (h * hashes_ref.FH_M) & M
    return hashes_ref._mix(h)


def huge_keys(ctx, mon):
    """Keys of 2^31 .. 2^32+ bytes (thorough tier, one shard): lengths that no longer fit a 32-bit integer.  All-zero keys have a
    closed-form reference, so no 4 GiB reference computation is needed."""
    s = sk()
    for n in (2**31 + 3, 2**32 - 1, 2**32, 2**32 + 29):
        case = {"huge_zero_key": n}
        mon.begin_case(case)
        for small in (0, 1, 7, 8, 9, 4096 + 5):  # sanity of the closed form against the ordinary reference
            mon.check(zero_key_reference(small, 11) == hashes_ref.fasthash64(bytes(small), 11), "harness:closed-form-zero-key-reference", n=small)
        try:
            key = bytes(n)
        except MemoryError:
            mon.notes.append(f"not enough memory for a {n}-byte key; skipped")
            mon.end_case()
            continue
        for seed in (0, 2**63 + 1):
            got = int(s.hashes.fasthash64(key, seed))
            want = zero_key_reference(n, seed)
            mon.check(got == want, "fasthash64==reference(keys of 2^31..2^32+ bytes)", n=n, seed=seed, got=got, want=want)
            got32 = int(s.hashes.fasthash32(key, seed))
            mon.check(got32 == (want - (want >> 32)) & 0xFFFFFFFF, "fasthash32==reference(keys of 2^31..2^32+ bytes)", n=n, seed=seed)
        del key
        mon.count("huge_keys")
        mon.nontrivial(True)
        mon.end_case()


def run_on_the_fly(case, ctx, mon):
    """Records built, hashed and dropped one after the other under one seed (the way a stream of documents is hashed): each
    temporary key is freed before the next is created, so object addresses repeat while the contents differ."""
    s = sk()
    f64, f32, mm3 = s.hashes.fasthash64, s.hashes.fasthash32, s.hashes.murmur3
    n, seed = case["len"], case["seed"]
    rng = np.random.default_rng(case["stream"])
    ids = set()
    for i in range(case["count"]):
        key = rng.bytes(n)
        ids.add(id(key))
        got = (int(f64(key, seed)), int(f32(key, seed)), int(mm3(key, seed & 0xFFFFFFFF)))
        want = (hashes_ref.fasthash64(key, seed), hashes_ref.fasthash32(key, seed), hashes_ref.murmur3_32(key, seed & 0xFFFFFFFF))
        for name, g, w in zip(("fasthash64", "fasthash32", "murmur3"), got, want):
            mon.check(g == w, f"{name}==reference(temporary-keys-hashed-one-after-the-other)", length=n, seed=seed, i=i, got=g, want=w)
        del key
    mon.count("temporary_keys_hashed", case["count"])
    if len(ids) < case["count"]:
        mon.count("temporary_keys_that_reused_an_address", case["count"] - len(ids))
    mon.nontrivial(True)


def fixed_vectors(ctx, mon):
    s = sk()
    case = {"fixed": "published-vectors"}
    mon.begin_case(case)
    for b, seed, want in hashes_ref.MURMUR3_VECTORS:
        mon.check(int(s.hashes.murmur3(b, seed)) == want, "murmur3==published-vector", key=hx(b), seed=seed, want=want)
    # the empty key hashes to 0 under seed 0 (FastHash), which C02 relies on
    mon.check(int(s.hashes.fasthash64(b"", 0)) == 0, "fasthash64(empty,0)==0")
    mon.nontrivial()
    mon.end_case()


DIGEST_SNIPPET = r"""
import sys, hashlib
import numpy as np
from sketchnu.hashes import fasthash64, fasthash32, murmur3
first = sys.argv[3] if len(sys.argv) > 3 else ""
if first:
    # the very first calls of this process pass the seed as a narrow NumPy scalar (whatever is specialised, cached or
    # remembered on first use must not shape later calls)
    t = getattr(np, first)
    fasthash64(b"first", t(1)); fasthash32(b"first", t(1)); murmur3(b"first", t(1))
rng = np.random.default_rng(int(sys.argv[1]))
h = hashlib.sha256()
for i in range(int(sys.argv[2])):
    n = int(rng.integers(0, 80))
    b = bytes(rng.integers(0, 256, n, dtype=np.uint8))
    s = int(rng.integers(0, 2**63)) * 2 + (i & 1)
    h.update(int(fasthash64(b, s)).to_bytes(8, 'little'))
    h.update(int(fasthash32(b, s)).to_bytes(4, 'little'))
    h.update(int(murmur3(b, s & 0xFFFFFFFF)).to_bytes(4, 'little'))
    d = {b: 1}; hash(b)
print(h.hexdigest())
"""


def second_interpreter(ctx, mon):
    """Same inputs hashed in two other processes with different PYTHONHASHSEEDs and in this one."""
    n = 3000 if ctx.quick else 20000
    seed = 1000 + ctx.seed + ctx.shard
    case = {"second_interpreter": {"seed": seed, "n": n}}
    mon.begin_case(case)
    s = sk()
    rng = np.random.default_rng(seed)
    h = hashlib.sha256()
    href = hashlib.sha256()
    for i in range(n):
        ln = int(rng.integers(0, 80))
        b = bytes(rng.integers(0, 256, ln, dtype=np.uint8))
        sd = int(rng.integers(0, 2**63)) * 2 + (i & 1)
        h.update(int(s.hashes.fasthash64(b, sd)).to_bytes(8, "little"))
        h.update(int(s.hashes.fasthash32(b, sd)).to_bytes(4, "little"))
        h.update(int(s.hashes.murmur3(b, sd & 0xFFFFFFFF)).to_bytes(4, "little"))
        href.update(hashes_ref.fasthash64(b, sd).to_bytes(8, "little"))
        href.update(hashes_ref.fasthash32(b, sd).to_bytes(4, "little"))
        href.update(hashes_ref.murmur3_32(b, sd & 0xFFFFFFFF).to_bytes(4, "little"))
    mine = h.hexdigest()
    mon.check(mine == href.hexdigest(), "digest==reference-digest", n=n, seed=seed)
    for phs, first in (("12345", ""), ("random", ""), ("0", "uint8"), ("0", "uint16"), ("0", "bool_"), ("0", "int64")):
        env = dict(os.environ, PYTHONHASHSEED=phs)
        p = subprocess.run([sys.executable, "-W", "ignore", "-c", DIGEST_SNIPPET, str(seed), str(n), first], env=env,
                           capture_output=True, text=True, timeout=600)
        got = p.stdout.strip().splitlines()[-1] if p.stdout.strip() else f"rc={p.returncode}: {p.stderr[-300:]}"
        mon.check(got == mine, "same-digest-in-second-interpreter", pythonhashseed=phs, first_calls_of_the_process_pass_seed_as=first or "int", got=got, want=mine)
        mon.count("second_interpreter_runs")
        mon.seen("first_call_seed_type", first or "int")
    mon.nontrivial()
    mon.end_case()


def c_reference(ctx, mon):
    """Thorough: batch comparison against the ASan+UBSan-built C reference (if setup built it)."""
    exe = os.path.join(VERIF_HOME, "build", "hashes_ref_san")
    if not os.path.exists(exe):
        mon.notes.append("C reference not built; skipped")
        return
    s = sk()
    rng = ctx.rng("cref")
    n = 20000
    lines = []
    items = []
    for i in range(n):
        ln = int(rng.integers(0, 300))
        b = rand_bytes(rng, ln, int(rng.integers(0, 5)))
        sd = int(rng.integers(0, 2**64, dtype=np.uint64))
        items.append((b, sd))
        lines.append(f"{b.hex() or '-'} {sd}")
    p = subprocess.run([exe], input="\n".join(lines) + "\n", capture_output=True, text=True, timeout=900,
                       env=dict(os.environ, ASAN_OPTIONS="abort_on_error=1:halt_on_error=1:detect_leaks=0", UBSAN_OPTIONS="halt_on_error=1:print_stacktrace=1"))
    case = {"c_reference": {"n": n}}
    mon.begin_case(case)
    mon.check(p.returncode == 0, "sanitized-C-reference-ran-clean", rc=p.returncode, stderr=p.stderr[-500:])
    outs = p.stdout.split("\n")
    for (b, sd), line in zip(items, outs):
        c64, c32, cm = (int(x) for x in line.split())
        mon.check(int(s.hashes.fasthash64(b, sd)) == c64, "fasthash64==C-reference", key=hx(b), seed=sd)
        mon.check(int(s.hashes.fasthash32(b, sd)) == c32, "fasthash32==C-reference", key=hx(b), seed=sd)
        mon.check(int(s.hashes.murmur3(b, sd & 0xFFFFFFFF)) == cm, "murmur3==C-reference", key=hx(b), seed=sd)
        mon.check(hashes_ref.fasthash64(b, sd) == c64 and hashes_ref.murmur3_32(b, sd & 0xFFFFFFFF) == cm, "python-reference==C-reference", key=hx(b))
    mon.count("c_reference_inputs", n)
    mon.nontrivial()
    mon.end_case()


def run(ctx, mon):
    hashes_ref.self_test()
    fixed_vectors(ctx, mon)
    if ctx.shard == 0:
        second_interpreter(ctx, mon)
    if ctx.thorough:
        c_reference(ctx, mon)
    if ctx.thorough and ctx.shard == 1 and os.environ.get("VERIF_HUGE_KEYS", "1") == "1":
        huge_keys(ctx, mon)
    rng = ctx.rng("kernel-slices")
    ks = []
    for i in range(120 if ctx.quick else 600):
        ln = int(rng.integers(10, 80))
        ks.append({"kernel_slices": True, "key": hx(rand_bytes(rng, ln, int(rng.integers(0, 5)))), "ngram": int(rng.integers(1, min(ln, 48) + 1)),
                   "seed": SEEDS64[i % len(SEEDS64)]})
    run_cases(ctx, mon, ks, run_kernel_slices, time_bound=False)
    kv = []
    for i in range(30 if ctx.quick else 200):
        n = int(rng.integers(40, 120))
        buf = bytes(rng.integers(1, 256, n, dtype=np.uint8))  # no NUL bytes: an over-read past a view is never hidden by a zero
        views = [(int(a), int(min(n - 1, a + ln))) for a in range(0, 17) for ln in (0, 1, 2, 3, 4, 5, 7, 8, 9, 15, 16, 17, 24, 31)]
        kv.append({"kernel_views": True, "buf": hx(buf), "views": views, "seed64": SEEDS64[i % len(SEEDS64)], "seed32": SEEDS32[i % len(SEEDS32)]})
    run_cases(ctx, mon, kv, run_kernel_views, time_bound=False)
    otf = [{"on_the_fly": True, "len": n, "seed": sd, "stream": int(rng.integers(0, 2**62)), "count": 200 if n <= 5000 else 40}
           for n in (8, 100, 1023, 1024, 1500, 4096, 70000) for sd in (0, int(rng.integers(0, 2**64, dtype=np.uint64)))]
    run_cases(ctx, mon, otf, run_on_the_fly, time_bound=False)
    run_cases(ctx, mon, gen_steered(ctx), run_steered, time_bound=False)
    run_cases(ctx, mon, gen_cases(ctx), run_case)


def replay(case, ctx, mon):
    if "on_the_fly" in case:
        run_on_the_fly(case, ctx, mon)
    elif "steered" in case:
        run_steered(case, ctx, mon)
    elif "kernel_views" in case:
        run_kernel_views(case, ctx, mon)
    elif "kernel_slices" in case:
        run_kernel_slices(case, ctx, mon)
    elif "inputs" in case:
        run_case(case, ctx, mon)
    elif "second_interpreter" in case:
        second_interpreter(ctx, mon)
    else:
        fixed_vectors(ctx, mon)


def floors(mon, ctx):
    mon.floor("tail lengths mod 8 (fasthash)", len(mon.classes["len_mod_8"]), 8)
    mon.floor("tail lengths mod 4 (murmur3)", len(mon.classes["len_mod_4"]), 4)
    mon.floor("listed 64-bit seeds", len([x for x in mon.classes["seed64"] if x != "random"]), len(SEEDS64))
    mon.floor("inputs", mon.counters["inputs"], 2000)
    mon.floor("second interpreter runs", mon.counters["second_interpreter_runs"], 6)
    mon.floor("temporary keys that reused the address of a dropped one", mon.counters["temporary_keys_that_reused_an_address"], 100)
    mon.floor("in-kernel slice windows", mon.counters["kernel_slice_windows"], 1000)
    if not mon.counters["kernel_view_cases_skipped(hashes_not_callable_from_jitted_code)"]:
        mon.floor("hashes of jitted views", mon.counters["kernel_views"], 1000)
    else:
        mon.notes.append("the public hashes could not be called from jitted code on this tree: the in-kernel view comparison was skipped")
    mon.floor("steered inputs (internal state or output forced to a special value)", mon.counters["steered_inputs"], 3000)
    mon.floor("steered fasthash state classes (position x value)", len(mon.classes["steered_fh"]), 4 * len(SPECIAL64))
    mon.floor("steered murmur3 state classes (position x value)", len(mon.classes["steered_mm"]), 4 * len(SPECIAL32))
    mon.floor("in-kernel slice length classes", len(mon.classes["kernel_slice_len_class"]), 3)
