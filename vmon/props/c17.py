"""C17 - query() is the documented HyperLogLog++ estimator of the registers."""
from __future__ import annotations

import math

import numpy as np

from .. import state
from ..common import pick, hx, run_cases, sk
from ..refs import hll_ref

ID = "C17"
LEVEL = "exploration"
TECHNIQUE = "reference-model monitor: real query() vs an independent HLL++ estimator on register arrays assigned through the documented registers attribute, with arrays constructed on both sides of both algorithm switch points"
RULE = ("case = (p, register array): arrays reached by real adds of random key sets at loads 0.01..100 keys/register, arrays "
        "drawn from the ideal register law at the same loads, and synthetic arrays (uniform small ranks, all-maximum, one "
        "zero register, all zero but one, number of zero registers chosen so that linear counting lands just below / just "
        "above threshold[p], rank mix chosen so that the raw estimate lands just below / just above 5m); non-trivial = "
        "array with at least one non-zero register; distinct = by (p, array digest); also: p passed as narrow NumPy scalars, one object "
        "shown several states of equal byte sum, 8 threads querying 4 sketches at once, and files with extra / perturbed members loaded "
        "next to an unrelated sketch whose answers and shipped tables must not move")
ASSUMPTIONS = ["the bias/raw-estimate/threshold tables shipped in hll_constants.py are trusted data (only their stated structure is checked)",
               "agreement is required to relative 1e-9 (summation order may differ by ulps)"]
LEVEL_TEXT = ("Every p in 7..16 and all four estimator branches (linear counting, bias-corrected with zero registers, "
              "bias-corrected without zero registers, raw) are driven on both sides of both switch points and compared with an "
              "independent implementation of the documented formula.")
LEVEL_NOTE = "oracle: vmon/refs/hll_ref.py written from the property statement; tables are data"
BUDGET = {"quick": 60, "thorough": 180}
SHARDS = {"quick": 1, "thorough": 16}
REL = 1e-9


def ideal_registers(rng, p, n):
    """Registers after n distinct uniformly hashed keys (idx uniform, rank geometric capped at 64-p+1)."""
    m = 1 << p
    idx = rng.integers(0, m, n)
    rank = np.minimum(rng.geometric(0.5, n), 64 - p + 1).astype(np.uint8)
    reg = np.zeros(m, np.uint8)
    np.maximum.at(reg, idx, rank)
    return reg


def branch_of(reg, p, threshold):
    m = 1 << p
    v = int(m - np.count_nonzero(reg))
    if v > 0:
        lc = m * math.log(m / v)
        return "linear-counting" if lc <= threshold else "bias-corrected-with-zeros"
    alpha = 0.7213 / (1.0 + 1.079 / m)
    raw = alpha * m * m / float(np.sum(2.0 ** (-reg.astype(np.float64))))
    return "bias-corrected-no-zeros" if raw <= 5 * m else "raw"


def tuned_lc(p, threshold, side, offset=0):
    """An array whose number of zero registers puts linear counting just below/above threshold[p] (offset moves the zero
    count a few registers further away from the switch point)."""
    m = 1 << p
    vstar = m * math.exp(-threshold / m)
    v = int(math.ceil(vstar)) if side == "below" else int(math.floor(vstar))
    if side == "above" and m * math.log(m / v) <= threshold:
        v -= 1
    if side == "below" and m * math.log(m / v) > threshold:
        v += 1
    v = max(1, min(m - 1, v + (offset if side == "below" else -offset)))
    reg = np.full(m, 2, np.uint8)
    reg[:v] = 0
    reg[v:: 3] = 1
    return reg


def tuned_5m(p, side, fine):
    """No zero register; rank mix of 2s and 3s (plus one fine-tuning register) with raw just below/above 5m."""
    m = 1 << p
    alpha = 0.7213 / (1.0 + 1.079 / m)
    target = alpha * m / 5.0  # sum(2^-r) at raw == 5m
    # k registers at rank 2, m-k-1 at rank 3, one at rank `fine`
    rest = 2.0 ** (-fine)
    k = (target - rest - (m - 1) * 0.125) / 0.125
    k = int(math.floor(k)) if side == "above" else int(math.ceil(k))  # smaller sum -> larger raw
    k = max(0, min(m - 1, k))
    reg = np.full(m, 3, np.uint8)
    reg[:k] = 2
    reg[-1] = fine
    return reg


def gen_cases(ctx):
    rng = ctx.rng("arrays")
    ps = list(range(7, 17))
    rep = 0
    while True:
        for p in ps:
            m = 1 << p
            if rep == 0 or rng.random() < 0.3:
                yield {"p": p, "kind": "zeros"}
                yield {"p": p, "kind": "all-max"}
                yield {"p": p, "kind": "one-zero", "rank": int(rng.integers(1, 64 - p + 2))}
                yield {"p": p, "kind": "all-zero-but-one", "rank": int(rng.integers(1, 64 - p + 2)), "pos": int(rng.integers(0, m))}
                yield {"p": p, "kind": "uniform", "rank": int(rng.integers(1, 6))}
                # two-level states: the largest ranks (64-p+1, 64-p) dominate or share the sum with one other rank (round 7, seed C17-M)
                yield {"p": p, "kind": "two-level", "r1": 64 - p + 1, "r2": 64 - p, "every": 2}
                yield {"p": p, "kind": "two-level", "r1": 64 - p + 1, "r2": int(rng.integers(1, 64 - p + 1)), "every": int(rng.integers(2, 9))}
                yield {"p": p, "kind": "two-level", "r1": int(rng.integers(40, 64 - p + 2)), "r2": int(rng.integers(30, 64 - p + 2)), "every": int(rng.integers(2, 200))}
                # estimates far beyond 2^32 (uniform high ranks), and the precision passed as a narrow NumPy integer
                yield {"p": p, "kind": "uniform", "rank": pick(rng, [10, 14, 16, 20, 30, 40, 64 - p])}
                for pt in ("uint8", "int8", "int16", "uint16", "int32", "uint64"):
                    if p <= 127 or pt != "int8":
                        yield {"p": p, "kind": "ideal", "n": int((1 << p) * pick(rng, [0.3, 2.0, 8.0, 30.0])), "seed": int(rng.integers(0, 2**31)), "p_type": pt}
                for side in ("below", "above"):
                    yield {"p": p, "kind": "lc-threshold", "side": side}
                    for off in (1, 2, 3):
                        yield {"p": p, "kind": "lc-threshold", "side": side, "offset": off}
                    yield {"p": p, "kind": "raw-5m", "side": side, "fine": int(rng.integers(3, 40))}
            for load in (0.01, 0.1, 0.5, 1.0, 2.0, 3.0, 4.0, 5.0, 6.0, 10.0, 30.0, 100.0):
                n = max(1, int(load * m * (0.8 + 0.4 * rng.random())))
                yield {"p": p, "kind": "ideal", "n": n, "seed": int(rng.integers(0, 2**31))}
            # real adds (cost ~1 us per key): small p at high load, large p at low load
            load = pick(rng, [0.02, 0.3, 1.0, 3.0, 8.0])
            n = int(load * m)
            if n <= (60000 if ctx.quick else 400000):
                yield {"p": p, "kind": "real", "n": max(1, n), "seed": int(rng.integers(0, 2**31)),
                       "hll_seed": int(rng.integers(0, 2**63))}
        rep += 1
        if ctx.quick and rep >= 4:
            return


def build(case, mon):
    s = sk()
    p = case["p"]
    m = 1 << p
    k = case["kind"]
    pt = case.get("p_type")
    hll = state.maybe_relayout(s.HyperLogLog(getattr(np, pt)(p) if pt else p, case.get("hll_seed", 0)))
    if k == "zeros":
        reg = np.zeros(m, np.uint8)
    elif k == "all-max":
        reg = np.full(m, 64 - p + 1, np.uint8)
    elif k == "one-zero":
        reg = np.full(m, case["rank"], np.uint8)
        reg[m // 3] = 0
    elif k == "all-zero-but-one":
        reg = np.zeros(m, np.uint8)
        reg[case["pos"]] = case["rank"]
    elif k == "uniform":
        reg = np.full(m, case["rank"], np.uint8)
    elif k == "two-level":
        reg = np.full(m, case["r1"], np.uint8)
        reg[:: case["every"]] = case["r2"]
    elif k == "lc-threshold":
        reg = tuned_lc(p, float(hll.threshold), case["side"], case.get("offset", 0))
    elif k == "raw-5m":
        reg = tuned_5m(p, case["side"], case["fine"])
    elif k == "ideal":
        reg = ideal_registers(np.random.default_rng(case["seed"]), p, case["n"])
    elif k == "real":
        rng = np.random.default_rng(case["seed"])
        keys = rng.integers(0, 256, (case["n"], 8), dtype=np.uint8)
        for row in keys:
            hll.add(row.tobytes())
        reg = np.array(hll.registers, copy=True)
        mon.count("real_adds", case["n"])
    else:
        raise ValueError(k)
    return hll, reg


def run_case(case, ctx, mon):
    hll, reg = build(case, mon)
    p = case["p"]
    m = 1 << p
    thr = float(hll.threshold)
    raw_t = np.array(hll.raw_estimate, dtype=np.float64)
    bias_t = np.array(hll.bias_data, dtype=np.float64)
    hll.registers[:] = reg
    got = float(mon.api(hll.query))
    want = hll_ref.estimate(reg, p, thr, raw_t, bias_t)
    br = branch_of(reg, p, thr)
    mon.seen("branch", f"p{p}:{br}")
    mon.seen("branch_any_p", br)
    if case["kind"] in ("lc-threshold", "raw-5m") and not case.get("offset"):
        mon.seen("switch_side", f"p{p}:{case['kind']}:{case['side']}:{br}")
    mon.nontrivial(bool(np.any(reg)))
    if want == 0.0:
        ok = got == 0.0
    else:
        ok = math.isfinite(got) and abs(got - want) <= REL * abs(want)
    mon.check(ok, "query==HLL++(registers)", p=p, kind=case["kind"], branch=br, got=got, want=want,
              zeros=int(m - np.count_nonzero(reg)))
    # the estimator is a pure function of the registers: asking twice gives the same float
    mon.check(float(hll.query()) == got, "query-is-repeatable", p=p)
    mon.check(np.array_equal(hll.registers, reg), "query-does-not-modify-registers", p=p)


def thread_queries(ctx, mon):
    """query() is a pure function of the registers also when several threads ask at once (different sketches and the same)."""
    import threading

    import sys

    s = sk()
    rng = ctx.rng("threads")
    for group in ("different precisions", "one precision, different contents"):
        _thread_group(s, rng, mon, group)
    sys.setswitchinterval(0.005)


def _thread_group(s, rng, mon, group):
    import sys
    import threading

    sketches, want = [], []
    if group == "different precisions":
        plan = [(p, pick(rng, [0.5, 3.0, 6.0, 20.0])) for p in (12, 14, 16, 10)]
    else:
        # whatever a query keeps per precision (scratch space, snapshots) belongs to one call: an empty sketch, a nearly empty one
        # and two full ones of the same p are asked at the same time, with frequent thread switches
        pp = pick(rng, [12, 14])
        plan = [(pp, 0.0), (pp, 0.07), (pp, 3.0), (pp, 25.0)]
        sys.setswitchinterval(1e-5)
    for p, load in plan:
        h = s.HyperLogLog(p, 3)
        h.registers[:] = ideal_registers(rng, p, int((1 << p) * load)) if load else 0
        sketches.append(h)
        want.append(float(h.query()))
    case = {"threads": "concurrent-queries", "group": group, "want": want}
    mon.begin_case(case)
    wrong = [0] * len(sketches)
    errors = []
    barrier = threading.Barrier(len(sketches) * 2)

    def work(i):
        barrier.wait()
        try:
            for _ in range(1500 if group == "different precisions" else 4000):
                if float(sketches[i].query()) != want[i]:
                    wrong[i] += 1
        except Exception as exc:  # noqa: BLE001
            errors.append(f"{type(exc).__name__}: {exc}")

    ts = [threading.Thread(target=work, args=(i % len(sketches),)) for i in range(len(sketches) * 2)]
    for t in ts:
        t.start()
    for t in ts:
        t.join()
    mon.check(sum(wrong) == 0 and not errors, "threads:concurrent-query()-answers==single-thread-answers", wrong_per_sketch=wrong, errors=errors[:2], group=group)
    mon.count("thread_query_rounds")
    mon.nontrivial(True)
    mon.end_case()


def reused_object(ctx, mon):
    """ONE sketch object is shown a sequence of register states (assigned through the documented attribute), among them pairs
    with equal byte sums but different contents and states that go *down*: every answer must be the estimate of the state it
    is asked about."""
    s = sk()
    rng = ctx.rng("reused")
    for p in (7, 8, 10, 12, 14):
        h = state.maybe_relayout(s.HyperLogLog(p, 1))
        thr, raw_t, bias_t = float(h.threshold), np.array(h.raw_estimate), np.array(h.bias_data)
        m = 1 << p
        states = []
        base = ideal_registers(rng, p, int(m * pick(rng, [0.5, 2.0, 6.0])))
        states.append(base)
        b2 = base.copy()
        i, j = int(np.argmax(base)), int(np.argmin(base))
        b2[i] -= 1
        b2[j] += 1  # same byte sum, different multiset
        states.append(b2)
        b3 = base.copy()
        nz = np.flatnonzero(base >= 2)
        if len(nz) >= 2:
            b3[nz[0]] -= 2
            b3[nz[1]] += 2
            states.append(b3)
        states.append(ideal_registers(rng, p, int(m * 0.1)))  # a smaller state after a larger one
        states.append(base)
        case = {"reused_object": p}
        mon.begin_case(case)
        for k, reg in enumerate(states):
            h.registers[:] = reg
            got = float(h.query())
            want = hll_ref.estimate(reg, p, thr, raw_t, bias_t)
            mon.check(abs(got - want) <= REL * max(abs(want), 1e-300), "query==HLL++(registers)-on-a-reused-object", p=p, step=k, got=got, want=want,
                      byte_sum=int(reg.sum()))
        mon.count("reused_object_sequences")
        mon.nontrivial(True)
        mon.end_case()


def foreign_files(ctx, mon):
    """Files as another build of the library might write them - the members save() writes plus extra members named after the
    sketch object's public attributes (tables, constants), with perturbed values - are loaded (or refused); afterwards an
    unrelated sketch of the same precision, and one built afterwards, must still answer with the shipped tables."""
    import os

    s = sk()
    rng = ctx.rng("foreign")
    for p in (7, 11, 14):
        case = {"foreign_files": p}
        mon.begin_case(case)
        other = s.HyperLogLog(p, 3)
        m = 1 << p
        other.registers[:] = ideal_registers(rng, p, int(m * 3.0))
        thr, raw0, bias0 = float(other.threshold), np.array(other.raw_estimate, dtype=np.float64), np.array(other.bias_data, dtype=np.float64)
        q0 = float(other.query())
        want0 = hll_ref.estimate(np.asarray(other.registers), p, thr, raw0, bias0)
        src = s.HyperLogLog(p, 3)
        for i in range(200):
            src.add(b"k%d" % i)
        path = state.tmp_path(".npz")
        try:
            src.save(path)
            with np.load(path) as z:
                members = {k: np.array(z[k]) for k in z.files}
            extra = {}
            for name, val in vars(src).items():
                if name.startswith("_") or name in members or name in ("registers", "shm", "existing_shm"):
                    continue
                if isinstance(val, np.ndarray) and val.dtype.kind == "f" and val.size > 1:
                    extra[name] = np.asarray(val, dtype=np.float64) * 1.013 + 7.0
                elif isinstance(val, (float, np.floating)):
                    extra[name] = np.float64(float(val) * 1.02 + 1.0)
            n_loaded = 0
            for variant in range(3):
                mv = dict(members)
                if variant >= 1:
                    mv.update(extra)
                if variant == 2:
                    # members beyond the two the file format is documented by (args, the registers): as another build wrote them
                    mv = {k: (np.asarray(v, dtype=np.float64) * 1.013 + 7.0 if k not in ("args", "hll") and getattr(v, "dtype", None) is not None
                              and v.dtype.kind == "f" else v) for k, v in mv.items()}
                p2 = state.tmp_path(".npz")
                np.savez(p2, **mv)
                try:
                    loaded = s.HyperLogLog.load(p2)
                    n_loaded += 1
                    del loaded
                except Exception:  # noqa: BLE001  (refusing such a file is fine)
                    pass
                finally:
                    os.unlink(p2)
                q1 = float(other.query())
                mon.check(q1 == q0, "loading-a-file-leaves-the-answers-of-unrelated-sketches-alone", p=p, before=q0, after=q1, extra_members=sorted(extra), variant=variant)
                fresh = s.HyperLogLog(p, 3)
                fresh.registers[:] = other.registers
                qf = float(fresh.query())
                mon.check(abs(qf - want0) <= REL * max(abs(want0), 1e-300), "query==HLL++(registers)-with-the-shipped-tables-after-loading-a-foreign-file", p=p, got=qf, want=want0,
                          extra_members=sorted(extra), variant=variant)
                mon.check(np.array_equal(np.asarray(fresh.raw_estimate, dtype=np.float64), raw0) and np.array_equal(np.asarray(fresh.bias_data, dtype=np.float64), bias0),
                          "shipped-tables-unchanged-after-loading-a-foreign-file", p=p, variant=variant)
            mon.count("foreign_files_loaded", n_loaded)
            mon.count("foreign_file_cases")
        finally:
            os.unlink(path)
        mon.nontrivial(True)
        mon.end_case()


def table_sanity(ctx, mon):
    s = sk()
    mon.begin_case({"tables": "structure"})
    for p in range(7, 17):
        h = s.HyperLogLog(p)
        m = 1 << p
        r = np.asarray(h.raw_estimate, dtype=np.float64)
        b = np.asarray(h.bias_data, dtype=np.float64)
        mon.check(bool(np.all(np.diff(r) > 0)), "raw-estimate-table-strictly-increasing", p=p)
        mon.check(abs((r[0] - b[0]) - float(h.threshold)) <= 0.02 * float(h.threshold) + 1, "table-begins-where-threshold-ends", p=p,
                  first_corrected=float(r[0] - b[0]), threshold=float(h.threshold))
        mon.check(r[-1] >= 5 * m * 0.999, "table-reaches-5m", p=p, last=float(r[-1]))
        mon.check(len(r) == len(b), "tables-same-length", p=p)
    mon.nontrivial()
    mon.end_case()


def run(ctx, mon):
    table_sanity(ctx, mon)
    thread_queries(ctx, mon)
    reused_object(ctx, mon)
    run_cases(ctx, mon, gen_cases(ctx), run_case)
    foreign_files(ctx, mon)  # last: if a load poisons process-wide tables, everything before it was judged with the shipped ones


def replay(case, ctx, mon):
    if "foreign_files" in case:
        foreign_files(ctx, mon)
    elif "reused_object" in case:
        reused_object(ctx, mon)
    elif "threads" in case:
        thread_queries(ctx, mon)
    elif "tables" in case:
        table_sanity(ctx, mon)
    else:
        run_case(case, ctx, mon)


def floors(mon, ctx):
    for p in range(7, 17):
        for br in ("linear-counting", "bias-corrected-with-zeros", "bias-corrected-no-zeros", "raw"):
            mon.floor(f"branch {br} at p={p}", int(f"p{p}:{br}" in mon.classes["branch"]), 1)
        sides = [x for x in mon.classes["switch_side"] if x.startswith(f"p{p}:")]
        need = {f"p{p}:lc-threshold:below:linear-counting", f"p{p}:lc-threshold:above:bias-corrected-with-zeros",
                f"p{p}:raw-5m:below:bias-corrected-no-zeros", f"p{p}:raw-5m:above:raw"}
        mon.floor(f"both sides of both switch points at p={p}", len(need & set(sides)), 4)
    mon.floor("arrays from real adds", mon.counters["real_adds"], 1000)
