"""C12 - batch, dict, multiplicity and ngram entry points equal loops of single adds."""
from __future__ import annotations

import numpy as np

from .. import ops, state
from ..common import pick, hx, key_family, rand_key, run_cases, sk, unhx

ID = "C12"
LEVEL = "exploration"
TECHNIQUE = "differential state monitor: two real sketches of equal configuration, one driven through the compound entry point, one through the loop of primitive calls defined by the statement; whole public state compared after every operation (log sketches under identical random draws); one case in four with the batch side in shared memory"
RULE = ("case = (sketch class and shape, list of compound operations); after each operation the left sketch (compound call) and the "
        "right sketch (loop of add(key, v) / unit adds / per-element add_ngram as the statement defines) must have identical cms / "
        "registers / lhh, lhh_count, key_lens / n_added_records (and rand_ptr, rand_nums for log types); non-trivial = at least two "
        "distinct keys of the case share a counter or register (small widths), or an ngram operation hit the boundary len == n; "
        "distinct = by case digest")
ASSUMPTIONS = ["log sketches: both sides consume the same draw batch and Numba's generator is re-seeded identically before each side's step",
               "ngram sizes >= 1; multiplicities for the unit-add expansion <= 10^4 (log types: small max_count so the loop stays short)"]
LEVEL_TEXT = ("All five classes, every compound entry point (update(list), update(dict), add(key, v), add_ngram, update_ngram, "
              "sketch[key]) is executed next to its definitional expansion on thousands of random operation lists with widths 1..4 so "
              "that order-dependent collisions occur; equality is of the whole documented state.")
LEVEL_NOTE = "the window enumeration of add_ngram is computed by the harness (vmon.refs.hll_ref.windows), not by the code under test"
BUDGET = {"quick": 60, "thorough": 300}
SHARDS = {"quick": 1, "thorough": 16}
BOUNDSCHECK = True


def gen_cfg(rng):
    kind = state.ALL_KINDS[int(rng.integers(0, 5))]
    if kind in state.CMS_KINDS and rng.random() < 0.04:
        # deep tables: more rows than fit a 64-bit mask or an 8-bit row counter
        c = {"kind": kind, "width": int(rng.integers(1, 4)), "depth": pick(rng, [63, 64, 65, 70, 130, 255, 256, 257, 300])}
        if kind != "linear":
            c.update(max_count=2**32 - 1, num_reserved=pick(rng, [3, 15]))
        return c
    if kind == "linear":
        return {"kind": kind, "width": int(rng.integers(1, 5)), "depth": int(rng.integers(1, 5))}
    if kind == "log16":
        return {"kind": kind, "width": int(rng.integers(1, 5)), "depth": int(rng.integers(1, 4)),
                "max_count": pick(rng, [70000, 10**6, 2**32 - 1]), "num_reserved": pick(rng, [0, 3, 40, 1023])}
    if kind == "log8":
        return {"kind": kind, "width": int(rng.integers(1, 5)), "depth": int(rng.integers(1, 4)),
                "max_count": pick(rng, [300, 5000, 10**6, 2**32 - 1]), "num_reserved": pick(rng, [0, 2, 15, 60])}
    if kind == "hh":
        return {"kind": kind, "width": int(rng.integers(1, 4)), "depth": int(rng.integers(1, 4)), "max_key_len": int(rng.integers(1, 9))}
    return {"kind": kind, "p": int(rng.integers(7, 10)), "seed": pick(rng, [0, 1, 2**63 + 11])}


def gen_case(rng, ctx):
    cfg = gen_cfg(rng)
    kind = cfg["kind"]
    keys = key_family(rng, int(rng.integers(2, 9)), 0, 12)
    n_ops = int(rng.integers(3, 14))
    maxv = 10**4 if kind in ("linear", "hh", "hll") else 400
    lst = []
    for _ in range(n_ops):
        r = rng.random()
        if r < 0.25:
            k = keys[int(rng.integers(0, len(keys)))] if rng.random() < 0.6 else rand_key(rng, 0, 40)
            if rng.random() < 0.15:
                # windows equal to fill / sentinel patterns (n bytes of one value at the start, the end, or throughout)
                b = bytes([pick(rng, [0x00, 0xFF, 0x7F, 0x80, 0x01])])
                n = int(rng.integers(1, 13))
                tail = rand_key(rng, 1, 6)
                k = pick(rng, [b * n + tail, tail + b * n, b * (n + 3), b * n + tail + b * n])
                lst.append(["ngram", hx(k), n])
                continue
            # n in 1..len+2 hits both branches and the boundary len == n
            lst.append(["ngram", hx(k), int(rng.integers(1, len(k) + 3))])
        elif r < 0.35:
            ks = [rand_key(rng, 0, 14) for _ in range(int(rng.integers(0, 4)))]
            lst.append(["ungram", [hx(k) for k in ks], int(rng.integers(1, 7))])
        else:
            op = ops.gen_op(rng, keys, max_value=maxv, ngram=False, big=0.0, zero=0.08)
            if op[0] == "add" and rng.random() < 0.5:
                op[2] = int(rng.integers(0, maxv + 1))
            lst.append(op)
    case = {"cfg": cfg, "ops": lst, "draw_seed": int(rng.integers(1, 2**30))}
    if kind in ("log16", "log8") and rng.random() < 0.35:
        case["start_ptr"] = 2048 - int(rng.integers(0, 60))
        # make sure the counters are past the reserved range quickly so that draws are consumed
        case["ops"].insert(0, ["add", hx(keys[0]), int(cfg["num_reserved"]) + 3])
        case["ops"].insert(1, ["add", hx(keys[0]), int(rng.integers(2, 300))])
    return case


def expand(op, kind):
    """The definitional expansion of a compound operation into primitive calls (list of callables-as-data)."""
    t = op[0]
    if t == "ulist":
        return [("add1", unhx(k)) for k in op[1]]
    if t == "ulist_nested":
        ks = [unhx(k) for k in op[1]]
        return [("add1", k) for k in ks[: op[2]] + [ops.nested_key(ks)] + ks[op[2]:]]
    if t == "udict":
        return [("add", unhx(k), int(v)) for k, v in op[1]]
    if t == "add":
        if kind == "hll":
            return [("add1", unhx(op[1]))]  # multiplicity ignored by HyperLogLog
        return [("add1", unhx(op[1]))] * int(op[2])
    if t == "add1":
        return [("add", unhx(op[1]), 1)]
    if t == "ngram":
        from ..refs.hll_ref import windows

        return [("add1", w) for w in windows(unhx(op[1]), int(op[2]))]
    if t == "ungram":
        return [("ngram", unhx(k), int(op[2])) for k in op[1]]
    raise ValueError(op)


def do_prim(sketch, prim):
    if prim[0] == "add1":
        sketch.add(prim[1])
    elif prim[0] == "add":
        sketch.add(prim[1], prim[2])
    elif prim[0] == "ngram":
        sketch.add_ngram(prim[1], prim[2])


def full_state(sketch, kind):
    snap = state.snapshot(sketch, kind)
    if kind in ("log16", "log8"):
        snap["rand_ptr"] = np.array([int(sketch.rand_ptr)], np.uint64)
        snap["rand_nums"] = np.array(sketch.rand_nums, copy=True)
    return snap


def run_case(case, ctx, mon):
    cfg = case["cfg"]
    kind = cfg["kind"]
    # one case in four: the sketch that takes the batch entry points lives in shared memory, the one that takes the loop of
    # primitives does not (where the arrays live must not change what an entry point does; round 8, seed C12-N)
    in_shm = case["draw_seed"] % 4 == 1
    L = state.make(cfg, shared_memory=in_shm)
    if in_shm:
        mon.count("cases_with_the_batch_side_in_shared_memory")
    R = state.make(cfg)
    is_log = kind in ("log16", "log8")
    if is_log:
        if case.get("start_ptr") is not None:
            L.rand_ptr = int(case["start_ptr"])  # the first operations straddle the end of the current draw batch
            mon.count("log_cases_starting_near_a_batch_end")
        state.share_draws(L, R)
    seed = case["draw_seed"]
    shared = False
    boundary = False
    touched = {}
    for n_op, op in enumerate(case["ops"]):
        if n_op == 1 and case["draw_seed"] % 5 == 0:
            # both sketches go through save() / load() first: entry points must agree on a *loaded* object too
            L2, R2 = state.save_load(L, kind, False, False), state.save_load(R, kind, False, bool(kind in state.CMS_KINDS))
            if is_log:
                state.share_draws(L, L2)
                state.share_draws(L, R2)
            L, R = L2, R2
            mon.count("cases_continued_on_loaded_sketches")
        if op[0] == "ulist_bad":
            # an interrupted batch call: the sketch must be left as the loop of single adds would leave it when it hits the
            # same unacceptable item (everything before it applied), or untouched
            before = full_state(L, kind)
            if is_log:
                state.numba_seed(seed + n_op)
            exc = ops.apply_failing(L, op)
            mon.check(exc is not None, "update-with-an-unacceptable-item-raises", op=op, kind=kind)
            if is_log:
                state.numba_seed(seed + n_op)
            Rb = full_state(R, kind)
            for k, _v in ops.effects(op):
                R.add(k)
            d = state.snap_diff(full_state(L, kind), full_state(R, kind))
            if d and not state.snap_diff(full_state(L, kind), before):
                # nothing applied: bring R back to where it was
                for a_name in state.ARRAYS[kind]:
                    getattr(R, a_name)[...] = Rb[a_name]
                if is_log:
                    R.rand_nums[:] = Rb["rand_nums"]
                    R.rand_ptr = int(Rb["rand_ptr"][0])
                d = []
            mon.check(not d, "interrupted-update(list)==interrupted-loop-of-adds", kind=kind, op=op, n_op=n_op, differs_in=d, cfg=cfg)
            mon.count(f"pairs:{kind}:ulist_bad")
            continue
        prims = expand(op, kind)
        if is_log:
            state.numba_seed(seed + n_op)
        probe = None
        if kind in state.CMS_KINDS and n_op % 3 == 1:
            # sketch[key] is looked up before and after the operation: both lookups must equal query(key) at their time
            uni = ops.universe_of(case["ops"], extra=(b"",))
            probe = uni[n_op % len(uni)]
            a0, q0 = L[probe], L.query(probe)
            mon.check(a0 == q0, "sketch[key]==query(key)", kind=kind, key=hx(probe), getitem=float(a0), query=float(q0), when="before an operation")
        mon.api(ops.apply_op, L, op)
        if probe is not None:
            a1, q1 = L[probe], L.query(probe)
            mon.check(a1 == q1, "sketch[key]==query(key)", kind=kind, key=hx(probe), getitem=float(a1), query=float(q1), when="again after an operation", op=op)
            mon.count("getitem_lookups_repeated_across_an_operation")
        if is_log:
            state.numba_seed(seed + n_op)
        for pr in prims:
            mon.api(do_prim, R, pr)
        d = state.snap_diff(full_state(L, kind), full_state(R, kind))
        mon.check(not d, f"{op[0]}==loop-of-primitives", kind=kind, op=op, n_op=n_op, differs_in=d, cfg=cfg)
        mon.count(f"pairs:{kind}:{op[0]}")
        if op[0] == "ngram":
            ln, n = len(unhx(op[1])), int(op[2])
            cls = "len<n" if ln < n else ("len==n" if ln == n else "len>n")
            mon.seen("ngram_branch", f"{kind}:{cls}")
            boundary = boundary or ln == n
        if op[0] == "add":
            mon.seen("multiplicity_class", "0" if op[2] == 0 else ("1" if op[2] == 1 else ("<=100" if op[2] <= 100 else ">100")))
    # sketch[key] == query(key) for the count-min family, on every key of the case and a few strangers
    if kind in state.CMS_KINDS:
        for k in ops.universe_of(case["ops"], extra=(b"", b"never-added"))[:40]:
            a, b = L[k], L.query(k)
            mon.check(a == b, "sketch[key]==query(key)", kind=kind, key=hx(k), getitem=float(a), query=float(b))
    # non-triviality: two distinct keys of the case own a common cell / register
    try:
        if kind == "hll":
            from ..refs import hashes_ref, hll_ref

            idxs = [hll_ref.rank_and_index(hashes_ref.fasthash64(k, cfg["seed"]), cfg["p"])[0]
                    for k in ops.universe_of(case["ops"])]
            shared = len(set(idxs)) < len(idxs)
        else:
            pr = _prober(cfg)
            cells = [pr.cells(k if kind != "hh" else k[: cfg["max_key_len"]]) for k in ops.universe_of(case["ops"])]
            for r in range(len(cells[0]) if cells else 0):
                col = [c[r] for c in cells]
                if len(set(col)) < len(col):
                    shared = True
    except state.Prober.ProbeAnomaly:
        shared = True
    mon.nontrivial(shared or boundary)
    if shared:
        mon.count("cases_with_shared_cell")


_PROBERS = {}


def _prober(cfg):
    key = (cfg["kind"] if cfg["kind"] == "hh" else "cms", cfg["width"], cfg.get("depth"), cfg.get("max_key_len"))
    p = _PROBERS.get(key)
    if p is None:
        p = _PROBERS[key] = state.Prober(cfg)
    return p


def run_getitem_freshness(case, ctx, mon):
    """sketch[key] must equal query(key) also when the table changed while n_added() reads the same: (a) the user rewrites the
    documented `cms` attribute in place, (b) a sketch whose bookkeeping wrapped to 0 (64 self-merges) is merged in."""
    cfg = case["cfg"]
    kind = cfg["kind"]
    a = state.make(cfg)
    k1, k2 = b"first-key", b"second-key"
    a.add(k1, 3)
    x0, q0 = a[k1], a.query(k1)
    mon.check(x0 == q0, "sketch[key]==query(key)", kind=kind, when="start", getitem=float(x0), query=float(q0))
    saved = a.cms.copy()
    a.cms[...] = 0  # the user clears the table in place
    x1, q1 = a[k1], a.query(k1)
    mon.check(x1 == q1, "sketch[key]==query(key)", kind=kind, when="after the table was cleared through the cms attribute", getitem=float(x1), query=float(q1))
    a.cms[...] = saved
    x2, q2 = a[k1], a.query(k1)
    mon.check(x2 == q2, "sketch[key]==query(key)", kind=kind, when="after the table was restored through the cms attribute", getitem=float(x2), query=float(q2))
    for _ in range(64):
        a.merge(a)
    mon.check(int(a.n_added()) == 0, "harness:bookkeeping-wrapped-to-zero", got=int(a.n_added()))
    x3 = a[k2]
    b = state.make(cfg)
    b.add(k2, 5)
    for _ in range(64):
        b.merge(b)
    a.merge(b)
    x4, q4 = a[k2], a.query(k2)
    mon.check(x4 == q4, "sketch[key]==query(key)", kind=kind, when="after merging a sketch whose n_added() had wrapped to 0 (n_added() unchanged, table changed)",
              getitem=float(x4), query=float(q4), before=float(x3))
    mon.count("getitem_freshness_cases")
    mon.nontrivial(True)


def gen_cases(ctx):
    rng = ctx.rng("cases")
    for kind in state.CMS_KINDS:
        c = {"kind": kind, "width": 5, "depth": 3}
        if kind != "linear":
            c.update(max_count=2**32 - 1, num_reserved=15)
        yield {"getitem_freshness": True, "cfg": c}
    n = 1500 if ctx.quick else 10**9
    for _ in range(n):
        yield gen_case(rng, ctx)


def run_any(case, ctx, mon):
    (run_getitem_freshness if case.get("getitem_freshness") else run_case)(case, ctx, mon)


def run(ctx, mon):
    state.fast_del(True)  # shared-memory sketches are dropped without the library's 0.25 s pause
    state.numba_seed(1)
    run_cases(ctx, mon, gen_cases(ctx), run_any)


def replay(case, ctx, mon):
    state.fast_del(True)
    run_any(case, ctx, mon)


def floors(mon, ctx):
    for kind in state.ALL_KINDS:
        for cls in ("len<n", "len==n", "len>n"):
            mon.floor(f"ngram branch {cls} for {kind}", int(f"{kind}:{cls}" in mon.classes["ngram_branch"]), 1)
        for t in ("ulist", "udict", "add", "ngram", "ungram"):
            mon.floor(f"{t} pairs for {kind}", mon.counters[f"pairs:{kind}:{t}"], 20)
    mon.floor("getitem freshness cases (table changed under an unchanged n_added())", mon.counters["getitem_freshness_cases"], 3)
    mon.floor("sketch[key] looked up before and after an operation", mon.counters["getitem_lookups_repeated_across_an_operation"], 200)
    mon.floor("cases with a shared cell", mon.counters["cases_with_shared_cell"], 100)
    mon.floor("log cases starting near a batch end", mon.counters["log_cases_starting_near_a_batch_end"], 30)
