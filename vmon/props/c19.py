"""C19 - a failing callback or dead worker never silently corrupts or hangs parallel_add."""
from __future__ import annotations

import itertools

import numpy as np

from .. import fakectx, par_common as P, state
from ..common import hx, key_family, pick, run_cases, sk

ID = "C19"
LEVEL = "fault_enumeration"
TECHNIQUE = "fault injection in the user callback: every subset of items marked to raise before / after updating the sketches, crossed with worker schedules, enumerated in-process against the real worker loop (result oracle on the surviving contributions); worker death injected in-process (BaseException) and in real spawned runs (os._exit) with a 'must raise, must not hang' oracle and a CPU-progress hang detector; spawned drivers with the caller's logging silenced (globally, per logger, by level)"
RULE = ("case = (items, fault marks per item in {none, raise_before, raise_after, exit}, n_workers 1..3, schedule, sketch combination); both "
        "tiers: all 64 mark vectors of 3 items x all 24 schedules on 2 workers plus sampled cases of up to 5 items (this core is never cut short "
        "by the time budget); thorough, as far as the budget goes: all 256 mark vectors of 4 items x all 360 schedules on 3 workers (sharded; the "
        "number completed is reported, not required); real spawned death runs with n_workers in {1,2,3}; non-trivial = at least one item is marked; "
        "distinct = by case digest")
ASSUMPTIONS = ["in-process: a dying worker is simulated by a BaseException escaping the worker function (exit code 3); the real os._exit path is covered by the spawned runs",
               "termination is judged on logical progress (the steered context reports a would-block) and, for spawned runs, on a generous wall-clock budget followed by a CPU-progress sample; a slow but progressing run is inconclusive, not a violation"]
LEVEL_TEXT = ("Fault enumeration over which items fail and how, crossed with schedules, against the real _worker / parallel_add code; "
              "surviving contributions and n_records are checked exactly. Worker death must surface as an exception from parallel_add.")
LEVEL_NOTE = "exhaustive for 3 items on 2 workers in every run; the 4-items-on-3-workers enumeration of the thorough tier is complete only when the evidence counter exhaustive_fault_x_schedule_cases_4x3 reaches 92160; real process death observed on Linux/spawn only"
BUDGET = {"quick": 150, "thorough": 480}
SHARDS = {"quick": 1, "thorough": 16}
SHM_LEAK_IS_VIOLATION = False
WATCHDOG_FACTOR = 5
MARKS = [None, "raise_before", "raise_after", "raise_custom"]
COMBO_ALL = ("cms", "hh", "hll")


def run_inproc_case(case, ctx, mon):
    combo = tuple(case["combo"])
    sched = {int(k): v for k, v in case["schedule"].items()}
    marks = [it.get("mark") for it in case["items"]]
    det = dict(n_workers=case["n_workers"], combo=list(combo), schedule=case["schedule"], marks=marks)
    outcome, res, fctx = P.run_inproc(case["items"], sched, case["n_workers"], case["args"], kind=case.get("item_kind", "dict"),
                                      as_generator=case.get("as_generator", False))
    lethal = "exit" in marks
    if outcome == "hang":
        mon.check(False, "parallel_add-terminates", why=str(res), **det)
    if lethal:
        died = bool(fctx.deaths)
        if died:
            mon.check(outcome == "raised", "dead-worker=>parallel_add-raises(not-returns)", outcome=outcome, **det)
            mon.count("inproc_death_runs")
        else:
            mon.count("inproc_death_not_reached")
        mon.nontrivial(True)
        return
    mon.check(outcome == "returned", "raising-callback=>parallel_add-still-returns", outcome=outcome,
              exc=(f"{type(res).__name__}: {res}" if outcome == "raised" else None), child_errors=fctx.child_errors[:3], **det)
    meta, sketches = P.extract(res, combo)
    mon.check(meta["order_ok"], "return-arity-and-order(cms,hh,hll)", got=meta["types"], **det)
    P.check_result(mon, sketches, combo, case["args"], case["items"], det)
    mon.count("inproc_runs")
    n_marked = sum(1 for m in marks if m)
    mon.count("inproc_runs_with_marked_items" if n_marked else "inproc_runs_without_faults")
    for m in marks:
        if m:
            mon.seen("marks", m)
    mon.seen("item_kind", case.get("item_kind", "dict"))
    del sketches, res
    mon.nontrivial(n_marked > 0)


def run_inproc_big(case, ctx, mon):
    """Tens of thousands of items with a few raising ones (size-gated delivery paths such as batching start somewhere): every
    other item's contribution and record count must arrive.  The item list is rebuilt from the compact case description."""
    n, nw = case["n"], case["n_workers"]
    rng = np.random.default_rng(case["seed"])
    keys = key_family(rng, 8, 0, 8)
    items = [{"i": i, "keys": [[hx(keys[i % 8]), 1 + (i % 3)]], "records": 1 + (i % 2), "mark": None, "sleep_ms": 0, "ret": "int"} for i in range(n)]
    for i, m in case["raising"].items():
        items[int(i)]["mark"] = m
    sched = {w: list(range(w, n, nw)) for w in range(nw)}
    combo = tuple(case["combo"])
    det = dict(n_workers=nw, n_items=n, raising=case["raising"])
    outcome, res, fctx = P.run_inproc(items, sched, nw, case["args"])
    if outcome == "hang":
        mon.check(False, "parallel_add-terminates", why=str(res), **det)
    mon.check(outcome == "returned", "raising-callback=>parallel_add-still-returns", outcome=outcome,
              exc=(f"{type(res).__name__}: {res}" if outcome == "raised" else None), child_errors=fctx.child_errors[:3], **det)
    meta, sketches = P.extract(res, combo)
    P.check_result(mon, sketches, combo, case["args"], items, det)
    mon.count("inproc_big_runs")
    mon.count("inproc_big_items", n)
    del sketches, res
    mon.nontrivial(True)


def run_spawned_case(case, ctx, mon):
    out = P.run_spawned(case, timeout_s=case.get("timeout", 600))
    det = dict(n_workers=case["n_workers"], lethal_item=case["lethal"], wall=round(out["wall"], 1))
    try:
        if out["timed_out"]:
            if out.get("progress", 1.0) < 0.05:
                mon.check(False, "parallel_add-terminates-after-worker-death", progress_cpu_s=out.get("progress"), log=out["log_tail"][-500:], **det)
            mon.inconclusive.append(f"spawned death run exceeded {case.get('timeout', 600)}s but was still consuming CPU")
            return
        died = any(ph == "exit" for _, _, ph in out["events"])
        r = out["result"]
        if not died:
            mon.inconclusive.append("lethal item was never processed")
            return
        mon.check(r is not None and r.get("outcome") == "raised", "dead-worker=>parallel_add-raises(not-returns)", outcome=(r or {}).get("outcome"),
                  rc=out["rc"], log=out["log_tail"][-500:], **det)
        mon.count("spawned_death_runs_completed")
        mon.seen("spawned_death_exception", (r or {}).get("exc", "")[:60])
        mon.seen("spawned_death_n_workers", case["n_workers"])
        mon.seen("spawned_death_driver_logging", (case.get("ambient") or {}).get("logging", "default"))
        mon.seen("spawned_death_how", case["items"][case["lethal"]].get("how", "os._exit(3)"))
        mon.extra(**{"spawned_death_wall_s_max": 0})
        mon._extra["spawned_death_wall_s_max"] = max(mon._extra.get("spawned_death_wall_s_max", 0), round(out["wall"], 1))
        mon.nontrivial(True)
    finally:
        P.cleanup_spawned(out)


def run_spawned_raise_case(case, ctx, mon):
    """Real spawned run in which the callback raises on some items: it must terminate and return the rest."""
    out = P.run_spawned(case, timeout_s=case.get("timeout", 600))
    det = dict(n_workers=case["n_workers"], n_items=len(case["items"]), wall=round(out["wall"], 1))
    try:
        if out["timed_out"]:
            if out.get("progress", 1.0) < 0.05:
                mon.check(False, "parallel_add-terminates-when-callbacks-raise(spawned)", progress_cpu_s=out.get("progress"), log=out["log_tail"][-500:], **det)
            mon.inconclusive.append("spawned raising-callback run exceeded its budget but was still consuming CPU")
            return
        r = out["result"]
        mon.check(r is not None and r.get("outcome") == "returned", "raising-callback=>parallel_add-still-returns", outcome=(r or {}).get("outcome"),
                  exc=(r or {}).get("exc"), log=out["log_tail"][-400:], **det)
        s = sk()
        combo = tuple(case["combo"])
        loaders = {"cms": s.countmin.load, "hh": s.HeavyHitters.load, "hll": s.HyperLogLog.load}
        sketches = {name: loaders[name](f) for name, f in zip(combo, r["files"])}
        P.check_result(mon, sketches, combo, case["args"], case["items"], det)
        mon.count("spawned_raising_runs_completed")
        mon.count("spawned_raising_items", sum(1 for it in case["items"] if str(it.get("mark", "")).startswith("raise")))
        mon.nontrivial(True)
    finally:
        P.cleanup_spawned(out)


def spawned_death_case(rng, nw, kth, how=None, ambient=None):
    keys = key_family(rng, 6, 0, 8)
    n_items = 2 * nw + 3
    lethal = min(n_items - 1, kth)
    items = P.gen_items(rng, n_items, keys, marks={lethal: "exit"}, sleep=True)
    if how:
        items[lethal]["how"] = how
    case = {"type": "spawned", "items": items, "n_workers": nw, "combo": list(COMBO_ALL), "args": P.gen_args(rng, COMBO_ALL, "linear"),
            "lethal": lethal, "timeout": 600, "item_kind": pick(rng, ["dict", "bytes", "int"])}
    if ambient:
        case["ambient"] = ambient
    return case


def gen_cases(ctx):
    rng = ctx.rng("cases")
    q = ctx.quick
    sh, ns = ctx.shard, ctx.nshards
    plan = [(2, 1, None), (2, 3, "sigkill"), (2, 2, "sigterm")] if q else [(3, 1, "sigterm"), (1, 0, "sigterm"), (1, 0, None), (2, 1, None), (3, 2, None), (2, 4, "sigkill"), (3, 0, "sigkill"), (1, 2, None), (2, 0, "sigkill"), (1, 1, "sigkill"),
                                     (2, 1, "KeyboardInterrupt"), (2, 2, "SystemExit(2)")]
    # the driver process of two runs in three has the caller's logging silenced (globally / per logger / by level) and sits in
    # another working directory: whether a dead worker is noticed must not depend on log traffic (round 8, seed C19-N)
    amb = [None, {"logging": "disable(CRITICAL)", "cwd": True}, {"logging": "level>CRITICAL"}, {"logging": "logger.disabled"}]
    for j, (nw, kth, how) in enumerate(plan):
        if q or j % ns == sh:
            yield spawned_death_case(rng, nw, kth, how, amb[j % len(amb)])
    if not q and sh == ns - 5:
        for a in amb[1:]:
            yield spawned_death_case(rng, 1, 1, None, a)
            yield spawned_death_case(rng, 2, 4, None, a)
    if not q and sh == ns - 2:
        # a user exception that pickle cannot rebuild from its args, followed by a few hundred more items (enough log
        # traffic to fill a pipe): parallel_add must still come back with everything else
        keys = key_family(rng, 8, 0, 8)
        items = P.gen_items(rng, 400, keys, marks={0: "raise_custom", 7: "raise_custom"})
        yield {"type": "spawned_raise", "items": items, "n_workers": 2, "combo": list(COMBO_ALL), "args": P.gen_args(rng, COMBO_ALL, "linear"),
               "timeout": 600, "item_kind": "dict"}
    if q or sh == ns - 3:
        # thousands of raising items in one real run: whatever a worker accumulates per failure (log records, a result queue
        # entry, a traceback) grows past every pipe and queue buffer; parallel_add must still come back with the rest
        keys = key_family(rng, 8, 0, 8)
        n = 3000 if q else 12000
        good = set(int(x) for x in rng.choice(n, 40, replace=False))
        items = P.gen_items(rng, n, keys, marks={i: pick(rng, ["raise_before", "raise_after", "raise_custom"]) for i in range(n) if i not in good})
        yield {"type": "spawned_raise", "items": items, "n_workers": 2, "combo": list(COMBO_ALL), "args": P.gen_args(rng, COMBO_ALL, "linear"),
               "timeout": 900, "item_kind": "dict", "many_raising": n - 40}
    if q or sh == ns - 4:
        n = 60000 if q else 150000
        yield {"type": "inproc_big", "n": n, "n_workers": 2, "combo": list(COMBO_ALL), "args": P.gen_args(rng, COMBO_ALL, "linear"), "seed": int(rng.integers(0, 2**31)),
               "raising": {str(int(x)): pick(rng, ["raise_before", "raise_after", "raise_custom"]) for x in rng.choice(n, 4, replace=False)}}
    # --- core (never cut short by the time budget): all mark vectors x all schedules of 3 items on 2 workers, and sampled runs
    yield from exhaustive(ctx, 3, 2)
    yield from sampled(ctx, rng, 0, 300 if q else max(40, 640 // ns))
    if q:
        return
    # --- depth (thorough tier, as far as the budget goes): 4 items on 3 workers exhaustively (sharded), then more samples
    yield {"deep": True}
    yield from exhaustive(ctx, 4, 3)
    yield from sampled(ctx, rng, 10**6, 10**9)


def exhaustive(ctx, n_items, n_workers):
    sh, ns = ctx.shard, ctx.nshards
    base = ctx.rng("exh", n_items, n_workers)
    keys = key_family(base, 5, 0, 8)
    proto = P.gen_items(base, n_items, keys)
    for it in proto:
        if not it["keys"]:
            it["keys"] = [[hx(keys[0]), 1]]
        it["records"] = max(1, it["records"])
    args = P.gen_args(base, COMBO_ALL, "linear")
    combos = list(itertools.product(itertools.product(MARKS, repeat=n_items), fakectx.all_schedules(n_items, n_workers)))
    if not ctx.quick:
        combos = combos[sh::ns]
    for marks, sched in combos:
        items = [dict(it, mark=m) for it, m in zip(proto, marks)]
        yield {"type": "inproc", "items": items, "n_workers": n_workers, "combo": list(COMBO_ALL), "args": args,
               "schedule": {str(w): v for w, v in sched.items()}, "exhaustive": [n_items, n_workers],
               "item_kind": P.ITEM_KINDS[(hash(marks) + sum(len(v) * (w + 1) for w, v in sched.items())) % len(P.ITEM_KINDS)]}


def sampled(ctx, rng, j0, n_rand):
    """More items, 1..3 workers, all sketch combinations, incl. simulated death."""
    for j in range(j0, j0 + n_rand):
        combo = P.COMBOS[j % 7]
        nw = 1 + j % 3
        n_items = int(rng.integers(1, 6))
        keys = key_family(rng, 5, 0, 8)
        marks = {i: pick(rng, MARKS + [None]) for i in range(n_items)}
        lethal = None
        if j % 4 == 0:
            lethal = int(rng.integers(0, n_items))
            marks[lethal] = "exit"
        items = P.gen_items(rng, n_items, keys, marks=marks)
        if lethal is not None:
            items[lethal]["how"] = pick(rng, ["SimulatedDeath", "KeyboardInterrupt", "SystemExit(2)"])
        sched = {w: [] for w in range(nw)}
        for i in rng.permutation(n_items).tolist():
            sched[int(rng.integers(0, nw))].append(i)
        yield {"type": "inproc", "items": items, "n_workers": nw, "combo": list(combo), "args": P.gen_args(rng, combo),
               "schedule": {str(w): v for w, v in sched.items()}, "item_kind": pick(rng, P.ITEM_KINDS), "as_generator": bool(rng.random() < 0.3)}


def run_case(case, ctx, mon):
    if case["type"] == "inproc":
        run_inproc_case(case, ctx, mon)
        if "exhaustive" in case:
            mon.count("exhaustive_fault_x_schedule_cases" if case["exhaustive"] == [3, 2] else "exhaustive_fault_x_schedule_cases_4x3")
    elif case["type"] == "inproc_big":
        run_inproc_big(case, ctx, mon)
    elif case["type"] == "spawned_raise":
        run_spawned_raise_case(case, ctx, mon)
    else:
        run_spawned_case(case, ctx, mon)


def run(ctx, mon):
    import warnings

    # in-process death simulation frees shared-memory sketches from exception tracebacks at arbitrary points;
    # CPython's resource tracker warns about re-entrancy then (harmless here, segments are censused separately)
    warnings.filterwarnings("ignore", message="ResourceTracker called reentrantly")
    state.fast_del(True)
    gen = gen_cases(ctx)

    def core():
        for c in gen:
            if c.get("deep"):
                return
            yield c

    # the core part decides the verdict and always runs to the end; the rest deepens it while the budget lasts
    run_cases(ctx, mon, core(), run_case, time_bound=False)
    run_cases(ctx, mon, gen, run_case)
    if ctx.thorough:
        mon.extra(exhaustive_4x3_total=256 * 360)
    mon.extra(exhaustive=True, exhaustive_scope="mark vectors {none,raise_before,raise_after}^n x all schedules: n=3 items/2 workers (quick), n=4 items/3 workers (thorough)")


def replay(case, ctx, mon):
    state.fast_del(True)
    run_case(case, ctx, mon)


def floors(mon, ctx):
    mon.floor("exhaustive fault x schedule cases (3 items, 2 workers: 64 mark vectors x 24 schedules)", mon.counters["exhaustive_fault_x_schedule_cases"], 64 * 24)
    mon.floor("in-process runs with marked items", mon.counters["inproc_runs_with_marked_items"], 200)
    mon.floor("in-process simulated deaths", mon.counters["inproc_death_runs"], 20)
    mon.floor("real death runs completed", mon.counters["spawned_death_runs_completed"], 3)
    mon.floor("ways a real worker died (os._exit, SIGKILL, SIGTERM)", len(mon.classes["spawned_death_how"]), 3)
    mon.floor("items of the largest in-process run with raising items", mon.counters["inproc_big_items"], 50000)
    mon.floor("raising items in one real spawned run", mon.counters["spawned_raising_items"], 2000)
    mon.floor("fault kinds", len(mon.classes["marks"]), 2)
