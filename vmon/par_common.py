"""Shared machinery for C08 / C19: items, in-process steered runs of the real parallel_add, real spawned runs,
and the result oracle (sequential reference + C01/C03/C04 bounds with respect to the whole stream)."""
from __future__ import annotations

import json
import os
import subprocess
import sys
import time
from collections import Counter

import numpy as np

from . import fakectx, state
from .common import CAP, VERIF_HOME, hx, key_family, pick, sk, unhx
from .refs import hashes_ref, hll_ref
from .spawn_cases import callbacks

COMBOS = [("cms", "hh", "hll"), ("cms", "hh"), ("cms", "hll"), ("hh", "hll"), ("cms",), ("hh",), ("hll",)]


EXC_NAMES = [None, None, "MemoryError", "ConnectionError", "ConnectionResetError", "TimeoutError", "InterruptedError", "OSError", "KeyError", "StopIteration",
             "ArithmeticError", "UnicodeDecodeError"]


def gen_items(rng, n_items, keys, marks=None, sleep=False):
    items = []
    # some workloads count huge numbers of records per item with NumPy integers (totals beyond 2^53 must stay exact)
    huge_records = n_items <= 12 and rng.random() < 0.08
    for i in range(n_items):
        ks = []
        for _ in range(int(rng.integers(0, 5))):
            ks.append([hx(keys[int(rng.integers(0, len(keys)))]), pick(rng, [1, 1, 2, 3, 10])])
        it = {"i": i, "keys": ks, "records": int(rng.integers(0, 4)), "mark": (marks or {}).get(i),
              "sleep_ms": int(rng.integers(0, 300)) if sleep else 0, "ret": pick(rng, ["int", "int", "np.int64", "np.uint32"])}
        if huge_records:
            it["records"] = 2**54 + 1 + int(rng.integers(0, 3))
            it["ret"] = pick(rng, ["np.int64", "np.int64", "int"])
        if it["mark"] and str(it["mark"]).startswith("raise") and it["mark"] != "raise_custom":
            it["exc"] = pick(rng, EXC_NAMES)
        if rng.random() < 0.15:
            it["hold_view"] = True
        items.append(it)
    return items


ITEM_KINDS = ["dict", "dict", "int", "bytes", "str", "tuple"]


def materialise(kind, payloads):
    """The objects actually handed to parallel_add for a list of payload dicts, and the lookup table (or None).

    Every non-dict kind starts with a *falsy* handle (0, b"", "", ()), bytes handles are not valid UTF-8: any list of
    items is legal input, and helpers.py formats items into log messages."""
    n = len(payloads)
    if kind == "dict":
        return list(payloads), None
    if kind.startswith("slow:"):
        from .spawn_cases import callbacks

        return [callbacks.SlowHandle(p, float(kind.split(":")[1])) for p in payloads], None
    if kind == "int":
        handles = list(range(n))
    elif kind == "bytes":
        handles = [b"" if i == 0 else b"\xff\xfe\x80" + bytes([i % 256, i // 256]) for i in range(n)]
    elif kind == "str":
        handles = ["" if i == 0 else f"item-{i}" for i in range(n)]
    elif kind == "tuple":
        handles = [() if i == 0 else (i,) for i in range(n)]
    else:
        raise ValueError(kind)
    return handles, {h: p for h, p in zip(handles, payloads)}


def gen_args(rng, combo, cms_kind=None, items=None):
    """Constructor arguments for the requested sketches.  With `items`, the HyperLogLog seed is sometimes crafted (by inverting the
    reference hash) so that a key of the workload hashes to all-zero rank bits, i.e. its register takes the maximum value 64-p+1."""
    args = {}
    if "cms" in combo:
        kind = cms_kind or pick(rng, ["linear", "linear", "log16", "log8"])
        a = {"cms_type": kind, "width": int(rng.integers(1, 6)), "depth": int(rng.integers(1, 4))}
        if kind != "linear":
            a["max_count"] = pick(rng, [10**6, 2**32 - 1])
            a["num_reserved"] = pick(rng, [15, 100])
        args["cms_args"] = a
    if "hh" in combo:
        args["hh_args"] = {"width": int(rng.integers(1, 5)), "depth": int(rng.integers(1, 4)), "max_key_len": pick(rng, [2, 4, 8])}
    if "hll" in combo:
        args["hll_args"] = {"p": int(rng.integers(7, 10)), "seed": pick(rng, [0, 7, 2**63 + 5])}
        if items and rng.random() < 0.4:
            from .refs import hashes_ref

            short = [unhx(k) for it in items for k, _m in it.get("keys", []) if len(unhx(k)) < 8]
            if short:
                key = short[int(rng.integers(0, len(short)))]
                idx = int(rng.integers(0, 1 << args["hll_args"]["p"]))
                args["hll_args"]["seed"] = hashes_ref.seed_for_target(key, idx)  # hash == idx: every rank bit is zero
    return args


def contributing(items):
    """Items whose keys reach the sketches (unmarked and raise_after), and those that count as records."""
    adds = [it for it in items if it.get("mark") in (None, "raise_after")]
    ok = [it for it in items if it.get("mark") is None]
    return adds, ok


def extract(result, combo):
    """Pull everything the oracle needs out of the returned sketches (then they can be dropped)."""
    s = sk()
    res = result if isinstance(result, tuple) else (result,)
    out = {"arity": len(res), "types": [type(x).__name__ for x in res]}
    want_types = []
    for name in combo:
        want_types.append({"cms": s.CountMinLinear, "hh": s.HeavyHitters, "hll": s.HyperLogLog}[name])
    out["order_ok"] = len(res) == len(combo) and all(isinstance(x, t) for x, t in zip(res, want_types))
    if not out["order_ok"]:
        return out, {}
    sketches = dict(zip(combo, res))
    return out, sketches


def check_result(mon, sketches, combo, args, items, det):
    """Oracle: the returned sketches vs the sequential semantics of the contributing items."""
    adds, ok = contributing(items)
    stream = Counter()
    total = 0
    for it in adds:
        for k, v in it["keys"]:
            stream[unhx(k)] += v
            total += v
    n_records = sum(it["records"] for it in ok)
    if "hll" in combo:
        h = sketches["hll"]
        a = args["hll_args"]
        want = hll_ref.registers_for(list(stream), a["p"], a["seed"])
        bad = np.flatnonzero(np.asarray(h.registers) != want)
        mon.check(len(bad) == 0, "hll-registers==sequential-result", n_bad=int(len(bad)), first=bad[:4].tolist(), **det)
        if int(want.max(initial=0)) == 64 - a["p"] + 1:
            mon.count("hll_results_holding_a_maximum_rank_register")
        seq = state.make({"kind": "hll", "p": a["p"], "seed": a["seed"]})
        for it in adds:
            for k, v in it["keys"]:
                seq.add(unhx(k), v)
        mon.check(np.array_equal(seq.registers, h.registers), "hll-registers==sequentially-built-real-sketch", **det)
        # the returned sketch was filled through other handles / processes: it must still behave as a merge operand
        fresh = state.make({"kind": "hll", "p": a["p"], "seed": a["seed"]})
        fresh.merge(h)
        mon.check(np.array_equal(fresh.registers, want), "returned-hll-merges-into-a-fresh-sketch", **det)
        h.merge(seq)
        mon.check(np.array_equal(np.asarray(h.registers), want), "returned-hll-unchanged-by-merging-the-same-stream", **det)
    if "cms" in combo:
        c = sketches["cms"]
        a = args["cms_args"]
        mon.check(int(c.n_added()) == total, "cms-n_added==total-multiplicity", got=int(c.n_added()), want=total, **det)
        mon.check(int(c.n_records()) == n_records, "cms-n_records==sum-of-callback-returns", got=int(c.n_records()), want=n_records, **det)
        fresh = state.make(dict({k: v for k, v in a.items() if k != "cms_type"}, kind=a["cms_type"]))
        fresh.merge(c)
        mon.check(np.array_equal(fresh.cms, c.cms) and int(fresh.n_added()) == total and int(fresh.n_records()) == n_records,
                  "returned-cms-merges-into-a-fresh-sketch", **det)
        kind = a["cms_type"]
        if kind == "linear":
            pr = _prober(("linear", a["width"], a["depth"]), {"kind": "linear", "width": a["width"], "depth": a["depth"]})
            d = a["depth"]
            cells = {k: pr.cells(k) for k in stream}
            sums = [Counter() for _ in range(d)]
            for k, f in stream.items():
                for r in range(d):
                    sums[r][cells[k][r]] += f
            for k, f in stream.items():
                est = int(c.query(k))
                hi = min(CAP, min(sums[r][cells[k][r]] for r in range(d)))
                mon.check(min(f, CAP) <= est <= hi, "C01-bounds-on-returned-cms", key=hx(k), estimate=est, true=f, upper=hi, **det)
            mon.check(int(c.query(b"\xfenever-added")) <= total, "C01-stranger-bounded", **det)
        else:
            nr = a["num_reserved"]
            for k, f in stream.items():
                est = float(c.query(k))
                mon.check(est >= min(f, nr + 1), "C06-lower-bound-on-returned-log-cms", key=hx(k), estimate=est, true=f, **det)
    if "hh" in combo:
        hh = sketches["hh"]
        a = args["hh_args"]
        L = a["max_key_len"]
        ident = Counter()
        for k, f in stream.items():
            ident[k[:L]] += f
        mon.check(int(hh.n_added()) == total, "hh-n_added==total-multiplicity", got=int(hh.n_added()), want=total, **det)
        mon.check(int(hh.n_records()) == n_records, "hh-n_records==sum-of-callback-returns", got=int(hh.n_records()), want=n_records, **det)
        pr = _prober(("hh", a["width"], a["depth"], L), {"kind": "hh", "width": a["width"], "depth": a["depth"], "max_key_len": L})
        d = a["depth"]
        cells = {k: pr.cells(k) for k in ident}
        sums = [Counter() for _ in range(d)]
        for k, f in ident.items():
            for r in range(d):
                sums[r][cells[k][r]] += f
        for k, f in ident.items():
            got = int(hh[k])
            mon.check(got <= f, "C03-no-overcount-on-returned-hh", key=hx(k), got=got, true=f, **det)
            bound = max(2 * f - sums[r][cells[k][r]] for r in range(d))
            if bound > 0:
                mon.check(got >= bound, "C04-dominating-key-reported-by-returned-hh", key=hx(k), got=got, bound=bound, **det)
        for key, cnt in hh.query(10**9, 0):
            mon.check(int(cnt) <= ident.get(bytes(key), 0), "C03-query-pairs-on-returned-hh", key=hx(key), count=int(cnt), **det)


_PROBERS = {}


def _prober(key, cfg):
    p = _PROBERS.get(key)
    if p is None:
        p = _PROBERS[key] = state.Prober(cfg)
    return p


def run_inproc(items, schedule, n_workers, args, as_generator=False, die=True, kind="dict", cores=None):
    """Real parallel_add under the steered synchronous context. Returns (outcome, result|exc, ctx)."""
    s = sk()
    handles, table = materialise(kind, items)
    src = (it for it in handles) if as_generator else list(handles)
    with fakectx.Patched(s.helpers, schedule, cores=cores) as ctx:
        try:
            res = s.helpers.parallel_add(src, callbacks.process_item, n_workers=n_workers, event_file=None,
                                         die=fakectx.SimulatedDeath if die else None, table=table, **args)
            return "returned", res, ctx
        except fakectx.Hang as exc:
            return "hang", exc, ctx
        except Exception as exc:  # noqa: BLE001
            return "raised", exc, ctx


# ---------------------------------------------------------------------------------------------
# real spawned runs
# ---------------------------------------------------------------------------------------------
def run_spawned(case, timeout_s):
    """Run vmon.spawn_cases.driver in a fresh interpreter; returns dict(outcome, result, events, wall, ...)."""
    d = os.environ.get("VERIF_TMP") or "/tmp"
    import tempfile

    work = tempfile.mkdtemp(prefix="vmon-spawn-", dir=d)
    cpath = os.path.join(work, "case.json")
    opath = os.path.join(work, "out.json")
    epath = os.path.join(work, "events.log")
    with open(cpath, "w") as fh:
        json.dump(dict(case, event_file=epath), fh)
    t0 = time.time()
    log = open(os.path.join(work, "driver.log"), "w")
    p = subprocess.Popen([sys.executable, "-X", "faulthandler", "-W", "ignore", "-m", "vmon.spawn_cases.driver", cpath, opath],
                         stdout=log, stderr=subprocess.STDOUT, cwd=VERIF_HOME, start_new_session=True)
    out = {"work": work}
    try:
        rc = p.wait(timeout=timeout_s)
        out["rc"] = rc
        out["timed_out"] = False
    except subprocess.TimeoutExpired:
        out["timed_out"] = True
        out["progress"] = _sample_progress(p.pid, 20)
        _kill_tree(p.pid)
        out["rc"] = None
    log.close()
    out["wall"] = time.time() - t0
    out["log_tail"] = open(os.path.join(work, "driver.log")).read()[-1500:]
    out["result"] = json.load(open(opath)) if os.path.exists(opath) else None
    ev = []
    if os.path.exists(epath):
        for line in open(epath):
            parts = line.split()
            if len(parts) == 3:
                ev.append((int(parts[0]), int(parts[1]), parts[2]))
    out["events"] = ev
    return out


def cleanup_spawned(out):
    import shutil

    shutil.rmtree(out.get("work", ""), ignore_errors=True)


def _descendants(pgid_leader):
    import psutil

    try:
        root = psutil.Process(pgid_leader)
        return [root] + root.children(recursive=True)
    except Exception:  # noqa: BLE001
        return []


def _sample_progress(pid, seconds):
    """CPU time consumed by the process tree during `seconds` (0 => nothing is making progress: a hang)."""
    import psutil

    def total():
        t = 0.0
        for pr in _descendants(pid):
            try:
                c = pr.cpu_times()
                t += c.user + c.system
            except Exception:  # noqa: BLE001
                pass
        return t

    a = total()
    time.sleep(seconds)
    return total() - a


def _kill_tree(pid):
    import signal

    try:
        os.killpg(os.getpgid(pid), signal.SIGKILL)
    except Exception:  # noqa: BLE001
        pass
    for pr in _descendants(pid):
        try:
            pr.kill()
        except Exception:  # noqa: BLE001
            pass
