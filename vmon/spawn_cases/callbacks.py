"""Importable callbacks for helpers.parallel_add (real spawned runs need module-level functions).

An item is a dict {"i": index, "keys": [[hex key, multiplicity], ...], "records": n, "mark": None|"raise_before"|
"raise_after"|"exit", "sleep_ms": t}.  The callback appends "<pid> <item index> <phase>" lines to the event file named
by the `event_file` keyword (O_APPEND: one short write per record, serialised by the kernel).
"""
import os
import time


class Planned(Exception):
    """The failure the case asked for."""


class PlannedRecordError(Exception):
    """A user exception whose constructor signature differs from its .args (cannot be rebuilt by pickle from args)."""

    def __init__(self, record_id, reason):
        super().__init__(f"record {record_id}: {reason}")
        self.record_id = record_id
        self.reason = reason


class SlowHandle:
    """An item that is slow to unpickle (a large document, a memory-mapped array, ...): every unpickling sleeps `delay` s.
    The fill process unpickles the whole item list before it delivers anything, so the workers sit idle meanwhile."""

    def __init__(self, payload, delay):
        self.payload = payload
        self.delay = delay

    def __reduce__(self):
        return (_rebuild_slow, (self.payload, self.delay))

    def __repr__(self):
        return f"SlowHandle({self.payload.get('i')})"


def _rebuild_slow(payload, delay):
    time.sleep(delay)
    return SlowHandle(payload, delay)


def _log(event_file, text):
    if not event_file:
        return
    fd = os.open(event_file, os.O_WRONLY | os.O_APPEND | os.O_CREAT, 0o644)
    try:
        os.write(fd, (text + "\n").encode())
    finally:
        os.close(fd)


_EXC = {"MemoryError": MemoryError, "ConnectionError": ConnectionError, "ConnectionResetError": ConnectionResetError, "TimeoutError": TimeoutError,
        "InterruptedError": InterruptedError, "OSError": OSError, "KeyError": KeyError, "StopIteration": StopIteration, "ArithmeticError": ArithmeticError,
        "UnicodeDecodeError": None}


def _raise(item, text):
    """The failure the case asked for, as the exception class it asked for (user callbacks fail in every way)."""
    name = item.get("exc")
    if not name:
        raise Planned(text)
    if name == "UnicodeDecodeError":
        b"\xff\xfe".decode("utf-8")
    raise _EXC[name](text)


def process_item(item, *sketches, event_file=None, die=None, table=None):
    # items may be opaque handles (ints incl. 0, bytes incl. b"" and non-UTF-8, "", ()) whose payload is in `table`
    if table is not None:
        item = table[item]
    if isinstance(item, SlowHandle):
        item = item.payload
    i = item["i"]
    _log(event_file, f"{os.getpid()} {i} start")
    if item.get("sleep_ms"):
        time.sleep(item["sleep_ms"] / 1000.0)
    mark = item.get("mark")
    if item.get("hold_view"):
        # the callback keeps references to the sketches' public arrays in its locals (they live on in the traceback of
        # whatever it raises, until the worker lets go of it)
        held = [getattr(s_, n_) for s_ in sketches for n_ in ("cms", "registers", "lhh_count", "n_added_records") if hasattr(s_, n_)]  # noqa: F841
    if mark == "raise_before":
        _raise(item, f"item {i} fails before touching the sketches")
    if mark == "raise_custom":
        raise PlannedRecordError(i, "malformed record")
    if mark == "exit":
        _log(event_file, f"{os.getpid()} {i} exit")
        if item.get("how") == "KeyboardInterrupt":
            raise KeyboardInterrupt()  # Ctrl-C reaches the children too
        if item.get("how") == "SystemExit(2)":
            raise SystemExit(2)
        if die is not None:
            raise die(f"worker dies on item {i}")
        if item.get("how") == "sigkill":
            import signal

            os.kill(os.getpid(), signal.SIGKILL)  # the way the OOM killer ends a worker
        if item.get("how") == "sigterm":
            import signal

            os.kill(os.getpid(), signal.SIGTERM)  # the way a supervisor, `kill` or a container runtime ends a worker
            time.sleep(30)  # the signal is delivered while the callback is running
        os._exit(3)
    for k, v in item["keys"]:
        kb = bytes.fromhex(k)
        for s in sketches:
            s.add(kb, v)
    if mark == "raise_after":
        _raise(item, f"item {i} fails after updating the sketches")
    _log(event_file, f"{os.getpid()} {i} done")
    if item.get("ret") == "np.int64":
        import numpy as np

        return np.int64(item["records"])  # callbacks that count with NumPy return NumPy integers
    if item.get("ret") == "np.uint32":
        import numpy as np

        return np.uint32(item["records"])
    return item["records"]
