"""Driver for real spawned runs: python -m vmon.spawn_cases.driver <case.json> <out.json>

Runs the real sketchnu.helpers.parallel_add (spawn context, real processes, real queues) on the case, saves the
returned sketches next to <out.json> and records the outcome.  The parent harness judges the result.
"""
import json
import os
import sys
import time
import traceback


def main():
    case = json.load(open(sys.argv[1]))
    out_path = sys.argv[2]
    work = os.path.dirname(out_path)
    from sketchnu.helpers import parallel_add
    from vmon.spawn_cases import callbacks

    from vmon.par_common import materialise

    items, table = materialise(case.get("item_kind", "dict"), case["items"])
    amb = case.get("ambient") or {}
    if amb.get("logging"):
        # caller-owned logging configuration (round 8, seed C19-N): silenced globally, per logger, or by a level above CRITICAL
        import logging

        if amb["logging"] == "disable(CRITICAL)":
            logging.disable(logging.CRITICAL)
        elif amb["logging"] == "logger.disabled":
            for name in ("sketchnu", "sketchnu.helpers"):
                logging.getLogger(name).disabled = True
        elif amb["logging"] == "level>CRITICAL":
            logging.getLogger().setLevel(logging.CRITICAL + 10)
            for name in ("sketchnu", "sketchnu.helpers"):
                logging.getLogger(name).setLevel(logging.CRITICAL + 10)
    if amb.get("cwd"):
        os.chdir(work)
    src = (it for it in items) if case.get("as_generator") else items
    out = {"pid": os.getpid()}
    t0 = time.time()
    try:
        res = parallel_add(src, callbacks.process_item, n_workers=case["n_workers"], event_file=case["event_file"], table=table,
                           **case["args"])
        out["outcome"] = "returned"
        tup = res if isinstance(res, tuple) else (res,)
        out["types"] = [type(x).__name__ for x in tup]
        files = []
        for i, sk in enumerate(tup):
            f = os.path.join(work, f"result{i}.npz")
            sk.save(f)
            files.append(f)
        out["files"] = files
    except BaseException as exc:  # noqa: BLE001
        out["outcome"] = "raised"
        out["exc"] = f"{type(exc).__name__}: {exc}"
        out["tb"] = traceback.format_exc(limit=6)
    out["wall"] = time.time() - t0
    with open(out_path + ".tmp", "w") as fh:
        json.dump(out, fh)
    os.replace(out_path + ".tmp", out_path)
    # leave promptly: lingering children (killed workers, log process) must not keep the driver alive
    sys.stdout.flush()
    os._exit(0)


if __name__ == "__main__":
    main()
