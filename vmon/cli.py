"""python -m vmon.cli <ID> [quick|thorough] [--replay FILE] [--shard i/N --json-out FILE] [--budget S]

Dispatches one property check, fans the thorough tier out over processes, merges what the monitors
observed, writes evidence/<ID>.json and prints the verdict lines.

exit 0  held on everything explored (KNOWN-FINDING lines may be printed)
exit 1  violated: one line `VIOLATION property=<ID> replay=<path>` per witness
exit 2  inconclusive: watchdog fired / coverage floor missed / harness error (no VIOLATION line)
"""
from __future__ import annotations

import importlib
import json
import os
import subprocess
import sys
import tempfile
import time
import traceback

from . import common
from .common import CaseAbort, Ctx, HarnessError, Monitor, StopRun, jdump


def parse(argv):
    opts = {"tier": os.environ.get("VERIF_TIER", "quick"), "replay": None, "shard": None, "json_out": None,
            "budget": None, "nshards": None}
    if not argv:
        print(__doc__)
        sys.exit(2)
    opts["id"] = argv[0].upper()
    if opts["id"] == "WARM":
        ns = common.sk()
        from . import state

        state.numba_seed(1)
        print(f"sketchnu imported from {common.VERIF_REPO} in {ns.import_s:.1f}s; JIT cache: {os.environ.get('NUMBA_CACHE_DIR', 'off')}")
        sys.exit(0)
    i = 1
    while i < len(argv):
        a = argv[i]
        if a in ("quick", "thorough"):
            opts["tier"] = a
        elif a == "--tier":
            i += 1
            opts["tier"] = argv[i]
        elif a == "--replay":
            i += 1
            opts["replay"] = argv[i]
        elif a == "--shard":
            i += 1
            s, n = argv[i].split("/")
            opts["shard"] = (int(s), int(n))
        elif a == "--json-out":
            i += 1
            opts["json_out"] = argv[i]
        elif a == "--budget":
            i += 1
            opts["budget"] = float(argv[i])
        elif a == "--nshards":
            i += 1
            opts["nshards"] = int(argv[i])
        else:
            print(f"unknown argument {a}", file=sys.stderr)
            sys.exit(2)
        i += 1
    if opts["tier"] not in ("quick", "thorough"):
        opts["tier"] = "quick"
    return opts


def load_module(pid):
    return importlib.import_module(f"vmon.props.{pid.lower()}")


def module_budget(mod, tier):
    b = getattr(mod, "BUDGET", {"quick": 45, "thorough": 300})
    scale = float(os.environ.get("VERIF_BUDGET_SCALE", "1"))
    return b[tier] * scale


def run_shard(mod, ctx, mon):
    """Run the module's workload for one shard, converting escapes into verdict material."""
    common.track_shm()
    import warnings

    # in-process runs of parallel_add free shared-memory sketches from arbitrary points (exception tracebacks, gc); CPython's
    # resource tracker then warns about re-entrancy.  Leaks are checked separately (per-process segment tracking).
    warnings.filterwarnings("ignore", message="ResourceTracker called reentrantly")
    try:
        mod.run(ctx, mon)
    except StopRun:
        pass
    except CaseAbort:
        pass
    except HarnessError as exc:
        mon.inconclusive.append(f"harness error: {exc}")
    except Exception as exc:  # noqa: BLE001
        tb = traceback.format_exc(limit=12)
        if common.from_repo(exc.__traceback__):
            try:
                mon.evaluations += 1
                mon.fail("unexpected-exception", exc=f"{type(exc).__name__}: {exc}", tb=tb)
            except (CaseAbort, StopRun):
                pass
        else:
            mon.inconclusive.append(f"harness exception: {type(exc).__name__}: {exc}\n{tb}")
    finally:
        try:
            mon.end_case()
        except Exception:  # noqa: BLE001
            pass
    import gc

    gc.collect()
    leaked = common.shm_created_alive()
    mon.extra(shm_segments_left_behind=len(leaked))
    if leaked and getattr(mod, "SHM_LEAK_IS_VIOLATION", False):
        try:
            mon._case = {"shm_leak": leaked[:10]}
            mon.evaluations += 1
            mon.fail("shm-segment-leaked", names=leaked[:10])
        except (CaseAbort, StopRun):
            pass


def shrink(mod, pid, witness, ctx, budget_s=20.0):
    """Greedy delta-debugging of a violating history: drop events (then halve multiplicities) while the same clause still
    fires on replay.  Bounded by time; the original witness is kept when nothing smaller reproduces."""
    case = witness.get("case")
    if not isinstance(case, dict) or not isinstance(case.get("events"), list) or not hasattr(mod, "replay"):
        return witness
    t0 = time.time()

    def fires(c):
        mon = Monitor(pid, ctx)
        try:
            mon.begin_case(c)
            mod.replay(c, ctx, mon)
        except (CaseAbort, StopRun):
            pass
        except Exception:  # noqa: BLE001
            return False
        return any(w["clause"] == witness["clause"] for w in mon.violations)

    try:
        if not fires(case):
            return witness
        cur = dict(case)
        n = len(cur["events"])
        chunk = max(1, n // 2)
        while chunk >= 1 and time.time() - t0 < budget_s:
            i = 0
            while i < len(cur["events"]) and time.time() - t0 < budget_s:
                trial = dict(cur, events=cur["events"][:i] + cur["events"][i + chunk:])
                if trial["events"] and fires(trial):
                    cur = trial
                else:
                    i += chunk
            chunk //= 2
        if len(cur["events"]) < n:
            mon = Monitor(pid, ctx)
            try:
                mon.begin_case(cur)
                mod.replay(cur, ctx, mon)
            except (CaseAbort, StopRun):
                pass
            for w in mon.violations:
                if w["clause"] == witness["clause"]:
                    w = dict(w, shrunk_from_events=n, tier=witness.get("tier"), seed=witness.get("seed"), shard=witness.get("shard"))
                    return w
    except Exception:  # noqa: BLE001
        pass
    return witness


def write_replay(pid, witness):
    d = os.environ.get("VERIF_REPLAY_DIR") or os.path.join(common.VERIF_HOME, "replay")
    os.makedirs(d, exist_ok=True)
    path = os.path.join(d, f"{pid}-{common.digest_of(witness)}.json")
    with open(path, "w") as fh:
        fh.write(jdump(witness, indent=1))
    return path


def evidence(mod, pid, ctx, mon, wall, verdict, nshards):
    cov = {
        "evaluations": int(mon.evaluations),
        "distinct_nontrivial": int(len(mon.nontrivial_digests)),
        "rule": getattr(mod, "RULE", ""),
        "samples": mon.samples[:4] if mon.samples else [],
        "cases": int(mon.n_cases),
        "distinct_cases": int(len(mon.case_digests)),
        "invariant_evaluations": dict(sorted(mon.by_clause.items())),
        "events": dict(sorted(mon.counters.items())),
        "classes_reached": {k: (sorted(v, key=repr) if len(v) <= 40 else f"{len(v)} distinct") for k, v in sorted(mon.classes.items())},
        "shards": nshards,
        "verdict": verdict,
        "known_findings_hit": {k: {"what": v["what"], "count": v["count"]} for k, v in mon.known.items()},
        "inconclusive_reasons": mon.inconclusive[:10],
        "notes": mon.notes[:20],
    }
    if getattr(mod, "EXHAUSTIVE", None) is not None and "exhaustive" in mon._extra:
        pass
    cov.update(mon._extra)
    ev = {
        "property_id": pid,
        "tier": ctx.tier,
        "seed": ctx.seed,
        "level": mod.LEVEL,
        "coverage": cov,
        "assumptions": list(getattr(mod, "ASSUMPTIONS", [])) + [
            "execution environment of every run: CPython 3.12 / Numba JIT-compiled kernels on Linux; the complete quick workload is also run "
            "in a child under python -O and its observations are merged (coverage.python_O_shard_quick_workload); Numba's thread count "
            "is moved between 1, 2, 3 and NUMBA_NUM_THREADS from case to case and every 7th monitored call "
            "(events.numba_thread_count_changes); operations are issued in varying argument forms (positional / documented keywords, "
            "list / tuple / generator / iterator / map / NumPy S8 array, dict / Counter / OrderedDict / defaultdict, re-entrant update); "
            "NUMBA_DISABLE_JIT is not driven (the unchanged library does not run under it)",
            "thorough tier: coverage.core_shard_quick_workload is the complete quick workload, never cut short by the time budget; the "
            "other shards add depth as far as the budget goes"],
        "wall_s": round(wall, 2),
        "violations": len(mon.violations),
    }
    # evidence/<ID>.json is about /repo; self-test runs against scratch copies (VERIF_REPO) redirect it
    d = os.environ.get("VERIF_EVIDENCE_DIR") or os.path.join(common.VERIF_HOME, "evidence")
    os.makedirs(d, exist_ok=True)
    tmp = os.path.join(d, f".{pid}.json.tmp")
    with open(tmp, "w") as fh:
        fh.write(jdump(ev, indent=1))
    os.replace(tmp, os.path.join(d, f"{pid}.json"))


def main(argv=None):
    opts = parse(sys.argv[1:] if argv is None else argv)
    pid = opts["id"]
    seed = int(os.environ.get("VERIF_SEED", "0") or 0)
    tier = opts["tier"]
    mod = load_module(pid)
    t0 = time.time()
    # per-module environment (e.g. Numba thread count), applied before sketchnu/numba are imported
    for k, v in getattr(mod, "ENV", {}).get(tier, {}).items():
        if os.environ.get("VERIF_KEEP_ENV") != "1":
            os.environ[k] = v

    # ---- replay of one recorded witness ---------------------------------------------------
    if opts["replay"]:
        with open(opts["replay"]) as fh:
            witness = json.load(fh)
        if witness.get("python_optimize") and not sys.flags.optimize:
            # the witness was observed under python -O: replay it in the same interpreter mode
            os.execve(sys.executable, [sys.executable, "-O", "-W", "ignore::SyntaxWarning", "-m", "vmon.cli"] + list(sys.argv[1:] if argv is None else argv),
                      dict(os.environ, PYTHONOPTIMIZE="1"))
        ctx = Ctx(pid, witness.get("tier", tier), witness.get("seed", seed), witness.get("shard", 0), 1, None)
        mon = Monitor(pid, ctx)
        common.sk()
        try:
            mon.begin_case(witness["case"])
            mod.replay(witness["case"], ctx, mon)
            mon.end_case()
        except (CaseAbort, StopRun):
            pass
        except Exception as exc:  # noqa: BLE001
            if common.from_repo(exc.__traceback__):
                mon.violations.append({"property": pid, "clause": "unexpected-exception", "detail": {"exc": repr(exc)}, "case": witness["case"]})
            else:
                raise
        for k, v in mon.known.items():
            print(f"KNOWN-FINDING: property={pid} {v['what']}")
        if mon.violations:
            for w in mon.violations:
                print(f"replayed: clause={w['clause']} detail={jdump(w['detail'])[:600]}")
                print(f"VIOLATION property={pid} replay={opts['replay']}")
            return 1
        print(f"replay of {opts['replay']}: no monitor fired ({mon.evaluations} evaluations)")
        return 0

    # ---- one shard (child process, or the whole quick run) -------------------------------
    if opts["shard"] is not None:
        shard, nshards = opts["shard"]
        ctx = Ctx(pid, tier, seed, shard, nshards, opts["budget"] or module_budget(mod, tier))
        mon = Monitor(pid, ctx)
        try:
            common.sk()
        except Exception as exc:  # noqa: BLE001
            mon.inconclusive.append(f"import of sketchnu failed: {type(exc).__name__}: {exc}")
        else:
            ctx.t0 = time.time()  # the time budget starts after the (possibly cold) JIT import
            run_shard(mod, ctx, mon)
        with open(opts["json_out"], "w") as fh:
            fh.write(jdump(mon.to_json()))
        return 0

    # ---- parent ------------------------------------------------------------------------------
    nshards = opts["nshards"] or (getattr(mod, "SHARDS", {"quick": 1, "thorough": 16})[tier])
    env_n = os.environ.get("VERIF_SHARDS")
    if env_n:
        nshards = int(env_n)
    budget = opts["budget"] or module_budget(mod, tier)
    ctx = Ctx(pid, tier, seed, 0, nshards, budget)
    mon = Monitor(pid, ctx)
    try:
        ns = common.sk()  # warms the JIT cache for the children; also validates the import path
    except Exception as exc:  # noqa: BLE001
        print(f"INCONCLUSIVE property={pid}: cannot import sketchnu from {common.VERIF_REPO}: {type(exc).__name__}: {exc}")
        traceback.print_exc()
        # a tree that does not import cannot satisfy any property; but that is a build failure, not ours
        return 2

    procs = []
    bc_shard = core_shard = None
    tmpd = tempfile.mkdtemp(prefix=f"vmon-{pid}-")
    # Interpreter-mode variant: the complete quick workload once more in a child started with PYTHONOPTIMIZE=1 (python -O:
    # assert statements are compiled away, __debug__ is False), in both tiers, beside the main run.  The library must behave
    # the same; whatever that child observes is merged into this run's monitors.
    opt_shard = None
    if os.environ.get("VERIF_OPT_SHARD", "1") == "1" and getattr(mod, "OPT_SHARD", True):
        opt_shard = "opt"
        out = os.path.join(tmpd, "shardopt.json")
        env = dict(os.environ, VERIF_KEEP_ENV="1", PYTHONOPTIMIZE="1", VERIF_OPT_SHARD="0")
        cmd = [sys.executable, "-X", "faulthandler", "-W", "ignore::SyntaxWarning", "-m", "vmon.cli", pid, "quick",
               "--shard", "0/1", "--json-out", out, "--budget", str(module_budget(mod, "quick"))]
        log = open(os.path.join(tmpd, "shardopt.log"), "w")
        procs.append((opt_shard, out, log, subprocess.Popen(cmd, stdout=log, stderr=subprocess.STDOUT, env=env)))
    if nshards == 1:
        run_shard(mod, ctx, mon)
    else:
        for s in range(nshards):
            out = os.path.join(tmpd, f"shard{s}.json")
            cmd = [sys.executable, "-X", "faulthandler", "-W", "ignore::SyntaxWarning", "-m", "vmon.cli", pid, tier,
                   "--shard", f"{s}/{nshards}", "--json-out", out, "--budget", str(budget)]
            log = open(os.path.join(tmpd, f"shard{s}.log"), "w")
            procs.append((s, out, log, subprocess.Popen(cmd, stdout=log, stderr=subprocess.STDOUT)))
        # Numba's own bounds-check sanitizer: one extra shard re-runs the workload with NUMBA_BOUNDSCHECK=1 (separately
        # compiled, separate cache directory); an out-of-range index inside a kernel then raises IndexError instead of
        # silently reading or corrupting neighbouring memory, and surfaces as a violation of the property being driven.
        if tier == "thorough" and getattr(mod, "BOUNDSCHECK", False) and os.environ.get("VERIF_BOUNDSCHECK", "1") == "1":
            bc_shard = nshards
            out = os.path.join(tmpd, f"shard{bc_shard}.json")
            env = dict(os.environ, NUMBA_BOUNDSCHECK="1")
            if env.get("NUMBA_CACHE_DIR"):
                env["NUMBA_CACHE_DIR"] = env["NUMBA_CACHE_DIR"].rstrip("/") + "-boundscheck"
            cmd = [sys.executable, "-X", "faulthandler", "-W", "ignore::SyntaxWarning", "-m", "vmon.cli", pid, tier,
                   "--shard", f"{bc_shard}/{nshards}", "--json-out", out, "--budget", str(min(budget, 150.0))]
            log = open(os.path.join(tmpd, f"shard{bc_shard}.log"), "w")
            procs.append((bc_shard, out, log, subprocess.Popen(cmd, stdout=log, stderr=subprocess.STDOUT, env=env)))
        # The core shard: the complete quick-tier workload (a fixed case list that is never cut short by the time budget) runs
        # beside the time-bounded shards, so the thorough verdict never rests on how far a loaded machine got: the coverage
        # floors are met by the core, the other shards add depth.
        if tier == "thorough" and os.environ.get("VERIF_CORE_SHARD", "1") == "1":
            core_shard = "core"
            out = os.path.join(tmpd, "shard-core.json")
            env = dict(os.environ, VERIF_KEEP_ENV="1")
            cmd = [sys.executable, "-X", "faulthandler", "-W", "ignore::SyntaxWarning", "-m", "vmon.cli", pid, "quick",
                   "--shard", "0/1", "--json-out", out, "--budget", str(module_budget(mod, "quick"))]
            log = open(os.path.join(tmpd, "shardcore.log"), "w")
            procs.append((core_shard, out, log, subprocess.Popen(cmd, stdout=log, stderr=subprocess.STDOUT, env=env)))
    if True:
        watchdog = budget * float(getattr(mod, "WATCHDOG_FACTOR", 4)) + 300
        for s, out, log, p in procs:
            left = max(5.0, t0 + watchdog - time.time())
            try:
                rc = p.wait(timeout=left)
            except subprocess.TimeoutExpired:
                p.kill()
                mon.inconclusive.append(f"shard {s}: watchdog fired after {watchdog:.0f}s")
                continue
            finally:
                log.close()
            if rc != 0 or not os.path.exists(out):
                tail = open(os.path.join(tmpd, f"shard{s}.log")).read()[-1500:]  # 'shardcore.log' for the core shard
                crashed = rc < 0 or "Fatal Python error" in tail
                if crashed and getattr(mod, "CRASH_IS_VIOLATION", True):
                    mon.violations.append({"property": pid, "clause": "process-crash", "detail": {"rc": rc, "log_tail": tail}, "case": {"shard": s}, "tier": tier, "seed": seed, "shard": s})
                else:
                    mon.inconclusive.append(f"shard {s}: exit {rc}: {tail[-600:]}")
                continue
            with open(out) as fh:
                j = json.load(fh)
            if s == opt_shard:
                for w in j["violations"]:
                    w["python_optimize"] = True
                    if isinstance(w.get("detail"), dict):
                        w["detail"]["interpreter"] = "python -O (PYTHONOPTIMIZE=1)"
                mon.extra(python_O_shard_quick_workload={"cases": j["n_cases"], "invariant_evaluations": j["evaluations"],
                                                         "violations": len(j["violations"]), "inconclusive": j.get("inconclusive", [])[:3]})
            if s == core_shard:
                mon.extra(core_shard_quick_workload={"cases": j["n_cases"], "invariant_evaluations": j["evaluations"],
                                                     "violations": len(j["violations"]), "inconclusive": j.get("inconclusive", [])[:3]})
            if s == bc_shard:
                mon.extra(numba_boundscheck_shard={"cases": j["n_cases"], "invariant_evaluations": j["evaluations"],
                                                   "violations": len(j["violations"])})
            mon.merge_json(j)
        import shutil

        shutil.rmtree(tmpd, ignore_errors=True)

    if hasattr(mod, "floors"):
        try:
            mod.floors(mon, ctx)
        except Exception as exc:  # noqa: BLE001
            mon.inconclusive.append(f"floors(): {type(exc).__name__}: {exc}")
    if len(mon.nontrivial_digests) < 2 and not mon.violations:
        mon.inconclusive.append("fewer than 2 distinct non-trivial cases observed")

    wall = time.time() - t0
    verdict = "violated" if mon.violations else ("inconclusive" if mon.inconclusive else "held")
    evidence(mod, pid, ctx, mon, wall, verdict, nshards)

    for k, v in sorted(mon.known.items()):
        print(f"KNOWN-FINDING: property={pid} {k}: {v['what']} [{v['count']} witnesses this run]")
    print(f"{pid} {tier} seed={seed}: {verdict}; cases={mon.n_cases} distinct_nontrivial={len(mon.nontrivial_digests)} "
          f"invariant_evaluations={mon.evaluations} wall={wall:.1f}s import={ns.import_s:.1f}s")
    top = ", ".join(f"{k}={v}" for k, v in sorted(mon.counters.items())[:14])
    if top:
        print(f"  observed: {top}")
    if mon.violations:
        seen = set()
        for n_w, w in enumerate(mon.violations):
            if os.environ.get("VERIF_SHRINK", "1") == "1":
                w = shrink(mod, pid, w, ctx)
            path = write_replay(pid, w)
            if path in seen:
                continue
            seen.add(path)
            print(f"  clause={w['clause']} detail={jdump(w['detail'])[:500]}")
            print(f"VIOLATION property={pid} replay={path}")
        return 1
    if mon.inconclusive:
        for r in mon.inconclusive[:10]:
            print(f"INCONCLUSIVE property={pid}: {r}")
        return 2
    return 0


if __name__ == "__main__":
    sys.exit(main())
