"""A synchronous, steerable stand-in for multiprocessing's spawn context.

The real helpers.parallel_add / _fill_queue / _worker / attach_shared_memory / parallel_merging /
_merge_worker run unmodified; only the module global `helpers.get_context` (and the pure-delay names
`sleep` / `gc`) are rebound by the harness.  Process.start() runs its target inline, the item queue hands
worker w exactly the items the current schedule assigns to it (in that order) followed by one poison pill,
so that the outcome space "which worker got which items in which order" can be enumerated.

What this models: workers share nothing but the item queue; each owns its sketches until all have
exited.  What it cannot model: anything that depends on real process boundaries (pickling, exit codes
of real crashes, OS scheduling) - those are observed by the real spawned runs.
"""
from __future__ import annotations

import logging
from collections import deque


class Hang(Exception):
    """The real system would block forever here (e.g. a worker waiting for a poison pill that never comes)."""


class SimulatedDeath(BaseException):
    """Raised by a callback to simulate the worker process dying (not catchable by `except Exception`)."""


class FakeQueue:
    def __init__(self, maxsize=0):
        self.items = deque()
        self.closed = False
        self.maxsize = maxsize

    def put(self, x, *a, **k):
        if self.closed:
            raise ValueError(f"Queue {self!r} is closed")
        self.items.append(x)

    def get(self, *a, **k):
        if self.closed:
            raise ValueError(f"Queue {self!r} is closed")
        if not self.items:
            raise Hang("get() on an empty queue with no producer left")
        return self.items.popleft()

    def close(self):
        self.closed = True

    def join_thread(self):
        pass

    def cancel_join_thread(self):
        pass

    def empty(self):
        return not self.items

    def qsize(self):
        return len(self.items)


class ItemQueue(FakeQueue):
    """Steered: get() serves the calling worker its scheduled items, then a pill."""

    def __init__(self, ctx, maxsize=0):
        super().__init__(maxsize)
        self.ctx = ctx
        self.put_items = []   # everything the fill process put, in order (pills excluded)
        self.pills = 0
        self.cursor = {}
        self.served = []      # (worker, item index)

    def put(self, x, *a, **k):
        if self.closed:
            raise ValueError(f"Queue {self!r} is closed")
        if x is None:
            self.pills += 1
        else:
            if self.pills:
                raise Hang("item put after a poison pill")
            self.put_items.append(x)

    def get(self, *a, **k):
        if self.closed:
            raise ValueError(f"Queue {self!r} is closed")
        w = self.ctx.current_worker
        if w is None:
            raise Hang("item queue read outside a worker")
        sched = self.ctx.schedule.get(w, [])
        pos = self.cursor.get(w, 0)
        while pos < len(sched):
            idx = sched[pos]
            pos += 1
            if idx < len(self.put_items):
                self.cursor[w] = pos
                self.served.append((w, idx))
                return self.put_items[idx]
        self.cursor[w] = pos
        if self.pills <= 0:
            raise Hang(f"worker {w} waits for a poison pill that was never sent")
        self.pills -= 1
        return None


class FakeProcess:
    def __init__(self, ctx, target=None, args=(), kwargs=None, **_):
        self.ctx = ctx
        self.target = target
        self.args = args
        self.kwargs = kwargs or {}
        self.exitcode = None
        self.killed = False
        self.error = None
        self.name = getattr(target, "__name__", "process")
        self.pid = 100000 + len(ctx.processes)
        ctx.processes.append(self)

    def start(self):
        name = self.name
        if name == "_log_worker":
            return  # drained at join()
        self._run()

    def _run(self):
        ctx = self.ctx
        prev = ctx.current_worker
        if self.name == "_worker":
            ctx.current_worker = self.args[0]
        try:
            self.target(*self.args, **self.kwargs)
            self.exitcode = 0
        except SimulatedDeath as exc:
            self.exitcode = 3
            self.error = exc
            ctx.deaths.append(self.args[0] if self.name == "_worker" else self.name)
        except Hang as exc:
            self.exitcode = None  # still "running": blocked forever
            self.error = exc
            ctx.hangs.append(f"{self.name}: {exc}")
        except Exception as exc:  # noqa: BLE001  an uncaught exception ends a real child with exit code 1
            self.exitcode = 1
            self.error = exc
            ctx.child_errors.append(f"{self.name}: {type(exc).__name__}: {exc}")
        except KeyboardInterrupt as exc:  # a real child prints the traceback and exits with code 1
            self.exitcode = 1
            self.error = exc
            ctx.deaths.append(self.args[0] if self.name == "_worker" else self.name)
        except SystemExit as exc:  # sys.exit(n) inside a child ends it with that code
            self.exitcode = exc.code if isinstance(exc.code, int) else (0 if exc.code is None else 1)
            self.error = exc
            if self.exitcode != 0:
                ctx.deaths.append(self.args[0] if self.name == "_worker" else self.name)
        finally:
            ctx.current_worker = prev

    def join(self, timeout=None):
        if self.name == "_log_worker" and self.exitcode is None and not self.killed:
            q = self.args[0]
            if any(x is None for x in q.items) and not q.closed:
                self._run()
        if self.exitcode is None and not self.killed and self.error is not None:
            raise Hang(f"join() on a process that never exits: {self.error}")

    def kill(self):
        self.killed = True
        if self.exitcode is None:
            self.exitcode = -9

    terminate = kill

    def is_alive(self):
        return self.exitcode is None and not self.killed

    def close(self):
        pass


class FakeContext:
    def __init__(self, schedule):
        self.schedule = {int(k): list(v) for k, v in schedule.items()}
        self.current_worker = None
        self.processes = []
        self.queues = []
        self.item_queue = None
        self.deaths = []
        self.hangs = []
        self.child_errors = []

    def Queue(self, maxsize=0):
        if self.item_queue is None:
            q = self.item_queue = ItemQueue(self, maxsize)
        else:
            q = FakeQueue(maxsize)
        self.queues.append(q)
        return q

    def Process(self, group=None, target=None, name=None, args=(), kwargs=None, daemon=None):
        return FakeProcess(self, target=target, args=args, kwargs=kwargs)


class Patched:
    """Context manager: rebind helpers.get_context (and delays) to run parallel_add in-process."""

    def __init__(self, helpers, schedule, cores=None):
        self.helpers = helpers
        self.ctx = FakeContext(schedule)
        self.cores = cores

    def __enter__(self):
        h = self.helpers
        self._saved = (h.get_context, h.sleep)
        ctx = self.ctx
        h.get_context = lambda method=None: ctx
        calls = [0]

        def fake_sleep(*_a, **_k):
            calls[0] += 1
            if ctx.hangs:
                raise Hang("parallel_add waits forever: " + "; ".join(ctx.hangs))
            if calls[0] > 10000:
                raise Hang("parallel_add polls forever (10000 sleeps without progress)")

        h.sleep = fake_sleep
        self._psutil = getattr(h, "psutil", None)
        if self.cores is not None and self._psutil is not None:
            # the host is reported as a machine with `cores` cores (environment diversity: small laptops, big servers)
            real, cores = self._psutil, self.cores

            class _Psutil:
                def __getattr__(self, name):
                    return getattr(real, name)

                def cpu_count(self, logical=True):
                    return cores

            h.psutil = _Psutil()
        lg = logging.getLogger(h.__name__)
        if not any(isinstance(x, logging.NullHandler) for x in lg.handlers):
            lg.addHandler(logging.NullHandler())
        lg.propagate = False
        return ctx

    def __exit__(self, *exc):
        h = self.helpers
        h.get_context, h.sleep = self._saved
        if self._psutil is not None:
            h.psutil = self._psutil
        return False


def all_schedules(n_items, n_workers):
    """Every assignment of items 0..n-1 to workers 0..w-1 with every per-worker order."""
    import itertools

    for perm in itertools.permutations(range(n_items)):
        # cut the permutation into n_workers consecutive (possibly empty) runs
        for cuts in itertools.combinations_with_replacement(range(n_items + 1), n_workers - 1):
            bounds = (0,) + cuts + (n_items,)
            yield {w: list(perm[bounds[w]: bounds[w + 1]]) for w in range(n_workers)}
