"""Known-finding classifier.

/verif/known_findings.json is committed and read-only at run time.  Each *open* entry names a
mechanism predicate implemented here (by id).  A monitor failure whose witness matches an open
predicate of the same property is reported as KNOWN-FINDING and does not fail the check; anything
else is a VIOLATION.  `fixed` entries suppress nothing.
"""
from __future__ import annotations

import json
import os

_HERE = os.path.dirname(os.path.dirname(os.path.abspath(__file__)))
_CACHE = None


def load():
    global _CACHE
    if _CACHE is None:
        with open(os.path.join(_HERE, "known_findings.json")) as fh:
            _CACHE = json.load(fh)
    return _CACHE


def _uint_max(kind):
    return 255 if kind == "log8" else 65535


def _f4_region(cfg):
    """Configurations in which _find_base's damped Newton iteration has not converged after its
    fixed 200 steps, or for which no base > 1 exists at all but the constructor accepts them."""
    if not cfg:
        return False
    kind = cfg.get("kind")
    if kind not in ("log8", "log16"):
        return False
    um = _uint_max(kind)
    nr = int(cfg.get("num_reserved", -1))
    mc = int(cfg.get("max_count", 0))
    if nr < 0:
        return False
    span = um - nr  # number of log steps available
    # (a) no solution with base > 1: max_count - num_reserved <= span  (sum of `span` ones)
    if mc - nr <= span:
        return True
    # (b) heavily damped region: few log steps relative to the counter range
    return nr > 0.6 * um


_F4_CLAUSES = {
    "ceiling-decodes-to-max_count",
    "ctor-accepts-unsolvable",
    "merge-log-nearest",
    "merge-log-saturates",
    "log-ceiling-sticks",
    "log-estimate-monotone",
}


def classify(prop, clause, detail, case):
    for ent in load().get("open", []):
        if prop not in ent.get("properties", [ent.get("property")]):
            continue
        pid = ent["predicate"]
        if pid == "F4":
            cfg = (detail or {}).get("cfg") or ((case or {}).get("cfg") if isinstance(case, dict) else None)
            if clause in _F4_CLAUSES and _f4_region(cfg):
                return {"id": ent["id"], "what": ent["what"]}
    return None
