"""Known-finding classifier.

/verif/known_findings.json is committed and read-only at run time.  Each *open* entry names a
mechanism predicate implemented here (by id).  A monitor failure whose witness matches an open
predicate of the same property is reported as KNOWN-FINDING and does not fail the check; anything
else is a VIOLATION.  `fixed` entries suppress nothing.

F4 (countmin._find_base): the predicate re-runs a pure-Python model of the *defective mechanism* - the
fixed 200-step Newton iteration with the wrong derivative and the `base < 1.000000001` acceptance test
- on the witness configuration.  The witness is the known finding only if
  (1) the failed clause is about the decoding of the log ceiling,
  (2) the base the real sketch exposes equals what the defective mechanism yields for that
      configuration (so the failure is explained by it and by nothing else), and
  (3) that base is *not* the root of the defining equation (or no root > 1 exists).
A wrong ceiling with a converged base, a base that differs from the model's, or a configuration the
model rejects but the constructor accepted, is a new VIOLATION.
"""
from __future__ import annotations

import json
import math
import os

_HERE = os.path.dirname(os.path.dirname(os.path.abspath(__file__)))
_CACHE = None


def load():
    global _CACHE
    if _CACHE is None:
        with open(os.path.join(_HERE, "known_findings.json")) as fh:
            _CACHE = json.load(fh)
    return _CACHE


def uint_max_of(kind):
    return 255 if kind == "log8" else 65535


def pinned_find_base(max_count, num_reserved, uint_max):
    """Model of the defective mechanism: returns ("ValueError", None) or ("accepted", base)."""
    M = float(max_count) - float(num_reserved)
    K = uint_max - num_reserved
    try:
        base = math.exp(math.log(max_count) / K)
        for _ in range(200):
            f = base ** K - M * base + (M - 1.0)
            fp = uint_max * base ** K - M
            base = base - f / fp
    except (OverflowError, ZeroDivisionError, ValueError):
        return ("error", None)
    if base != base:  # nan
        return ("accepted", base)
    if base < 1.000000001:
        return ("ValueError", None)
    return ("accepted", base)


def true_base(max_count, num_reserved, uint_max):
    """Root > 1 of (b^K - 1)/(b - 1) = max_count - num_reserved by bisection, or None if there is none."""
    M = float(max_count) - float(num_reserved)
    K = uint_max - num_reserved
    if K < 1 or M <= K:
        return None

    def g(b):
        try:
            return (b ** K - 1.0) / (b - 1.0) - M
        except OverflowError:
            return float("inf")

    lo, hi = 1.0 + 1e-15, 2.0
    while g(hi) < 0:
        hi *= 2
        if hi > 1e300:
            return None
    if g(lo) > 0:
        return None
    for _ in range(300):
        mid = 0.5 * (lo + hi)
        if g(mid) > 0:
            hi = mid
        else:
            lo = mid
    return 0.5 * (lo + hi)


def decoded_ceiling(base, num_reserved, uint_max):
    K = uint_max - num_reserved
    return (base ** float(K) - 1.0) / (base - 1.0) + float(num_reserved)


_F4_CLAUSES = {"log-ceiling-decodes-to-max_count", "log-ceiling-reached-and-sticks"}


def f4_matches(cfg, observed_base):
    if not cfg or cfg.get("kind") not in ("log8", "log16") or observed_base is None:
        return False
    um = uint_max_of(cfg["kind"])
    mc, nr = int(cfg["max_count"]), int(cfg["num_reserved"])
    outcome, model_base = pinned_find_base(mc, nr, um)
    if outcome != "accepted" or model_base is None or model_base != model_base:
        return False
    ob = float(observed_base)
    root = true_base(mc, nr, um)
    # "the sketch's base is what the known-defective iteration produces": bases agree to 1e-8 of (base - 1); when the base is
    # within ~1e-6 of 1 the iteration amplifies rounding (libm vs LLVM pow differ by ulps; seen: 17 ulp at base - 1 = 2.5e-8),
    # so there the two bases must agree to 1e-3 of (base - 1) *and* decode the ceiling to the same value (rel 1e-7)
    close = abs(ob - model_base) <= 1e-8 * abs(model_base - 1.0) + 1e-15
    if not close and abs(model_base - 1.0) < 1e-5 and abs(ob - model_base) <= 1e-3 * abs(model_base - 1.0):
        try:
            close = abs(decoded_ceiling(ob, nr, um) - decoded_ceiling(model_base, nr, um)) <= 1e-7 * abs(decoded_ceiling(model_base, nr, um))
        except (OverflowError, ZeroDivisionError):
            close = False
    if not close:
        return False  # not explained by the known-defective mechanism
    if root is None:
        return True  # unsolvable configuration accepted by the defective acceptance test
    try:
        ceil_model = decoded_ceiling(model_base, nr, um)
    except OverflowError:
        return True
    return abs(ceil_model - mc) > 1e-8 * mc  # not converged: explains a wrong ceiling


def classify(prop, clause, detail, case):
    for ent in load().get("open", []):
        if prop not in ent.get("properties", [ent.get("property")]):
            continue
        if ent["predicate"] == "F8":
            # np.load/zipfile locate the archive by searching backwards for an end-of-central-directory record; a prefix that
            # still contains a *complete inner archive inside a member's payload* (adversarial table contents) is accepted as
            # that inner archive.  Matched only when the harness itself embedded such an archive and the record found in the
            # prefix lies before the file's own record (so a file whose own tail is tolerated - trailing comment, padding -
            # is NOT this finding).
            if clause == "prefix-must-raise" and (detail or {}).get("embedded_archive_in_payload") is True:
                return {"id": ent["id"], "what": ent["what"]}
            continue
        if ent["predicate"] == "F4":
            cfg = (detail or {}).get("cfg") or ((case or {}).get("cfg") if isinstance(case, dict) else None)
            if clause in _F4_CLAUSES and f4_matches(cfg, (detail or {}).get("base")):
                return {"id": ent["id"], "what": ent["what"]}
    return None
