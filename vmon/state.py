"""Constructing sketches from config dicts, snapshotting their documented public state, probing cell
ownership without assuming the hash formula, and controlling the log counters' random draws."""
from __future__ import annotations

import os
import tempfile

import numpy as np

from .common import sk, HarnessError

CMS_KINDS = ("linear", "log16", "log8")
ALL_KINDS = ("linear", "log16", "log8", "hh", "hll")


LAYOUTS = os.environ.get("VERIF_LAYOUTS", "1") == "1"
_LAYOUT_N = [0]
LAYOUT_COUNTS = {"rebound": 0, "strided": 0, "fortran": 0}


def reset_layouts(phase=0):
    """Called at the start of every case: which of the sketches built during the case get re-assigned arrays depends on the
    case alone, so a replayed case makes the same choices."""
    _LAYOUT_N[0] = int(phase) % 16


def relayout(sketch, how):
    """The user re-assigns the documented public array attributes of a (non shared-memory) sketch: to fresh copies ('rebound'),
    to strided views into larger arrays ('strided') or to Fortran-ordered arrays ('fortran').  Contents are preserved; the
    library's kernels take arrays of any layout, so everything must go on as before."""
    kind = kind_of(sketch)
    for name in ARRAYS.get(kind, ()):
        a = getattr(sketch, name)
        if how == "rebound":
            b = a.copy()
        elif how == "strided":
            big = np.zeros(a.shape[:-1] + (2 * a.shape[-1] + 1,), a.dtype)
            b = big[..., 1::2][..., : a.shape[-1]]
            b[...] = a
        else:
            b = np.asfortranarray(a) if a.ndim > 1 else a.copy()
        setattr(sketch, name, b)
    LAYOUT_COUNTS[how] += 1
    return sketch


def maybe_relayout(sketch):
    """Apply the per-case layout cycle to a sketch the caller constructed itself (not shared-memory backed)."""
    if LAYOUTS and getattr(sketch, "shm", None) is None and getattr(sketch, "existing_shm", None) is None:
        _LAYOUT_N[0] += 1
        how = {5: "rebound", 9: "strided", 13: "fortran"}.get(_LAYOUT_N[0] % 16)
        if how:
            relayout(sketch, how)
    return sketch


def make(cfg, shared_memory=False):
    sketch = _make(cfg, shared_memory)
    if not shared_memory:
        maybe_relayout(sketch)
    return sketch


def _make(cfg, shared_memory=False):
    s = sk()
    k = cfg["kind"]
    if k == "linear":
        return s.CountMin("linear", cfg["width"], cfg.get("depth", 8), shared_memory=shared_memory)
    if k in ("log16", "log8"):
        return s.CountMin(k, cfg["width"], cfg.get("depth", 8), cfg.get("max_count", 2**32 - 1),
                          cfg.get("num_reserved"), shared_memory=shared_memory)
    if k == "hh":
        return s.HeavyHitters(cfg["width"], cfg.get("depth", 4), cfg.get("max_key_len", 16), cfg.get("phi"),
                              shared_memory=shared_memory)
    if k == "hll":
        p = cfg.get("p", 16)
        pt = cfg.get("p_type")
        if pt:
            p = getattr(np, pt)(p)  # precision given as a narrow NumPy integer (e.g. taken from np.arange(7, 17, dtype=np.uint8))
        return s.HyperLogLog(p, cfg.get("seed", 0), shared_memory=shared_memory)
    raise HarnessError(f"unknown kind {k}")


def kind_of(sketch):
    s = sk()
    if isinstance(sketch, s.CountMinLog8):
        return "log8"
    if isinstance(sketch, s.CountMinLog16):
        return "log16"
    if isinstance(sketch, s.CountMinLinear):
        return "linear"
    if isinstance(sketch, s.HeavyHitters):
        return "hh"
    if isinstance(sketch, s.HyperLogLog):
        return "hll"
    return type(sketch).__name__


ARRAYS = {
    "linear": ("cms", "n_added_records"),
    "log16": ("cms", "n_added_records"),
    "log8": ("cms", "n_added_records"),
    "hh": ("lhh", "lhh_count", "key_lens", "n_added_records"),
    "hll": ("registers",),
}
PARAMS = {
    "linear": ("width", "depth"),
    "log16": ("width", "depth", "max_count", "num_reserved", "base"),
    "log8": ("width", "depth", "max_count", "num_reserved", "base"),
    "hh": ("width", "depth", "max_key_len", "phi"),
    "hll": ("p", "seed"),
}


def snapshot(sketch, kind=None):
    kind = kind or kind_of(sketch)
    snap = {"kind": kind, "class": type(sketch).__name__}
    for a in ARRAYS[kind]:
        snap[a] = np.array(getattr(sketch, a), copy=True)
    for p in PARAMS[kind]:
        v = getattr(sketch, p)
        snap["param:" + p] = float(v) if isinstance(v, (float, np.floating)) else int(v)
    return snap


def snap_diff(a, b, params=True):
    """Names of the components in which two snapshots differ (empty list == equal)."""
    out = []
    if a["kind"] != b["kind"] or a["class"] != b["class"]:
        out.append("class")
        return out
    for k in a:
        if k in ("kind", "class"):
            continue
        if k.startswith("param:"):
            if params and a[k] != b.get(k):
                out.append(k)
        else:
            x, y = a[k], b.get(k)
            if y is None or x.shape != y.shape or x.dtype != y.dtype or not np.array_equal(x, y):
                out.append(k)
    return out


def snap_digest(snap):
    import hashlib

    h = hashlib.sha1()
    for k in sorted(snap):
        v = snap[k]
        h.update(k.encode())
        if isinstance(v, np.ndarray):
            h.update(v.tobytes())
        else:
            h.update(repr(v).encode())
    return h.hexdigest()[:16]


# ---------------------------------------------------------------------------------------------
# probe sketches: which cell does a key own in each row?
# ---------------------------------------------------------------------------------------------
_WARMED = set()


def warm_plain_bytes(sketch):
    """Make sure this process has already called add() of the sketch's class with an ordinary bytes key (on a scratch sketch).

    Observed on the unchanged tree: when the very first call of a process into a class's jitted add kernel passes an
    `np.bytes_` key (what iterating a NumPy S-array yields), Numba's dispatcher refuses it with TypeError and from then on refuses
    ordinary bytes keys too, for every sketch of that class, until the process ends; after one ordinary call the same `np.bytes_`
    key is accepted.  NumPy-typed keys are outside the input domain of the properties, so the harness only offers them to a
    class that has been used in the ordinary way before (DESIGN.md section 10)."""
    s = sk()
    for cls, args in ((s.CountMinLog8, (2, 1)), (s.CountMinLog16, (2, 1)), (s.CountMinLinear, (2, 1)), (s.HeavyHitters, (2, 1)), (s.HyperLogLog, (7,))):
        if isinstance(sketch, cls):
            if cls not in _WARMED:
                cls(*args).add(b"warm-up")
                _WARMED.add(cls)
            return


class Prober:
    """Reads a key's cell per row off an *empty* probe sketch after one add(key, 1).

    No hash formula is assumed.  Returns a tuple (col_row0, col_row1, ...); raises ProbeAnomaly when a
    single add touched zero or several cells of a row (itself a property violation for the caller to
    report)."""

    class ProbeAnomaly(Exception):
        pass

    def __init__(self, cfg):
        self.cfg = dict(cfg)
        self.kind = cfg["kind"]
        pc = dict(cfg)
        if self.kind in ("log16", "log8"):
            pc = {"kind": "linear", "width": cfg["width"], "depth": cfg.get("depth", 8)}
            # the three count-min types are documented to share the row hash; probing each kind
            # separately is done by C05/C14 where it matters (see probe_native)
        self.sk = _make(pc)  # a measuring instrument: arrays as the library allocated them
        self.table = self.sk.lhh_count if self.kind == "hh" else self.sk.cms
        self.cache = {}

    via = "add"  # entry point used for the probing add: add | ulist | udict | ngram | ndarray

    def _probe_add(self, key):
        v = self.via
        if v == "add":
            self.sk.add(key, 1)
        elif v == "ulist":
            self.sk.update([key])
        elif v == "udict":
            self.sk.update({key: 1})
        elif v == "ngram":
            self.sk.add_ngram(key, max(1, len(key)))
        elif v == "ndarray":
            warm_plain_bytes(self.sk)
            self.sk.update(np.array([key], dtype="S8"))  # TypeError on a tree that does not accept arrays of keys
        else:
            raise ValueError(v)

    def cells(self, key: bytes):
        c = self.cache.get(key)
        if c is not None:
            return c
        t = self.table
        t[:] = 0
        if self.kind == "hh":
            self.sk.lhh[:] = 0
            self.sk.key_lens[:] = 0
        self._probe_add(key)
        cols = []
        for r in range(t.shape[0]):
            nz = np.flatnonzero(t[r])
            if len(nz) != 1:
                t[:] = 0
                raise Prober.ProbeAnomaly(f"one add touched {len(nz)} cells in row {r}")
            cols.append(int(nz[0]))
        t[:] = 0
        if self.kind == "hh":
            self.sk.lhh[:] = 0
            self.sk.key_lens[:] = 0
        self.sk.n_added_records[:] = 0
        c = tuple(cols)
        if len(self.cache) < 200000:
            self.cache[key] = c
        return c


class NativeProber(Prober):
    """Probe with a sketch of the same kind (log kinds included): counter 0 -> 1 is deterministic."""

    def __init__(self, cfg):
        self.cfg = dict(cfg)
        self.kind = cfg["kind"]
        self.sk = _make(cfg)
        self.table = self.sk.lhh_count if self.kind == "hh" else self.sk.cms
        self.cache = {}


def find_row_pair(pr, depth, row, rng, tries=400, key_len=4):
    """Two keys that own the same counter in exactly one chosen row (and different counters in every other row), found by
    probing; None if none turns up."""
    keys = [bytes(rng.integers(0, 256, key_len, dtype=np.uint8)) for _ in range(tries)]
    cells = [pr.cells(k) for k in keys]
    for i in range(len(keys)):
        for j in range(i):
            same = [cells[i][x] == cells[j][x] for x in range(depth)]
            if same[row] and sum(same) == 1:
                return keys[i], keys[j]
    return None


# ---------------------------------------------------------------------------------------------
# controlling random draws of log sketches
# ---------------------------------------------------------------------------------------------
_SEED_FN = None


def numba_seed(x: int):
    """Seed Numba's internal generator (used by np.random.rand inside the kernels' refill)."""
    global _SEED_FN
    if _SEED_FN is None:
        import numba

        @numba.njit
        def _seed(v):
            np.random.seed(v)

        _SEED_FN = _seed
    _SEED_FN(int(x) & 0x7FFFFFFF)


def share_draws(src, dst):
    """Make dst consume the same draws as src from now on (until the next refill)."""
    dst.rand_nums[:] = src.rand_nums
    dst.rand_ptr = src.rand_ptr


def tmp_path(suffix=".npz"):
    d = os.environ.get("VERIF_TMP") or tempfile.gettempdir()
    fd, p = tempfile.mkstemp(prefix="vmon-", suffix=suffix, dir=d)
    os.close(fd)
    return p


def decode_counter(c, num_reserved, base):
    """Documented value of a log counter, computed independently of _counter2value (Python floats)."""
    c = int(c)
    nr = int(num_reserved)
    if c <= nr:
        return float(c)
    return (base ** float(c - nr) - 1.0) / (base - 1.0) + float(nr)


def decode_table(tab, num_reserved, base):
    t = tab.astype(np.float64)
    nr = float(num_reserved)
    cp = np.maximum(t - nr, 0.0)
    return np.where(t <= nr, t, (np.power(base, cp) - 1.0) / (base - 1.0) + nr)


# ---------------------------------------------------------------------------------------------
# harness-side rebinding of module globals (pure delay in __del__ of shared-memory sketches)
# ---------------------------------------------------------------------------------------------
class _NoGC:
    @staticmethod
    def collect(*a, **k):
        return 0


def fast_del(enable=True):
    """Rebind the modules' `sleep` (and optionally `gc`) names so that dropping a shared-memory sketch does
    not cost 0.25 s + a full gc.collect().  Test-side monkeypatch of module globals, no source hook."""
    import gc as real_gc
    import time as real_time

    s = sk()
    for mod in (s.countmin, s.heavyhitters, s.hyperloglog, s.helpers):
        if enable:
            mod.sleep = lambda *_a, **_k: None
            mod.gc = _NoGC
        else:
            mod.sleep = real_time.sleep
            mod.gc = real_gc


def duplicate(sketch, how):
    """copy.copy / copy.deepcopy / pickle round trip of an ordinary (non shared-memory) sketch object."""
    import copy
    import pickle

    if how == "deepcopy":
        return copy.deepcopy(sketch)
    if how == "pickle":
        return pickle.loads(pickle.dumps(sketch))
    if how == "shallow":
        # a true shallow copy shares its arrays with the original; the callers drop the original at once, so the copy is the only
        # user of them from then on (anything that recycles or releases a dropped sketch's arrays must notice the survivor)
        return copy.copy(sketch)
    c = copy.copy(sketch)
    # a shallow copy shares the arrays with the original: give it its own so that the two can diverge legitimately
    for a in ARRAYS[kind_of(sketch)]:
        setattr(c, a, np.array(getattr(sketch, a), copy=True))
    if hasattr(sketch, "buckets"):
        c.buckets = np.array(sketch.buckets, copy=True)
    if hasattr(sketch, "rand_nums"):
        c.rand_nums = np.array(sketch.rand_nums, copy=True)
    if hasattr(sketch, "candidate_set"):
        c.candidate_set = copy.copy(sketch.candidate_set)
    return c


def _salt(sketch, kind):
    """A small content-derived number (so that a replayed case takes the same branch)."""
    try:
        if kind == "hll":
            return int(np.asarray(sketch.registers, dtype=np.uint64).sum())
        return int(sketch.n_added_records[0]) & 0xFFFF
    except Exception:  # noqa: BLE001
        return 0


def save_load(sketch, kind, shared_memory=False, via_module=False):
    """save() to a temp file and load it back through the class loader (or countmin.load)."""
    s = sk()
    path = tmp_path(".npz")
    if (len(path) + int(shared_memory)) % 2:
        from pathlib import Path

        path = Path(path)  # file names are documented as str | Path
    cwd = None
    if _salt(sketch, kind) % 4 == 2:
        # a relative file name, resolved against the current directory (saved and loaded from inside the directory)
        import threading

        if threading.current_thread() is threading.main_thread() and threading.active_count() == 1:
            cwd = os.getcwd()
            full = str(path)
            os.chdir(os.path.dirname(full))
            path = type(path)(os.path.basename(full)) if not isinstance(path, str) else os.path.basename(full)
    try:
        sketch.save(path)
        if _salt(sketch, kind) % 4 == 1:
            # the file is overwritten by another sketch (a loaded copy that moved on) and then saved again by this one,
            # unchanged in between: what is loaded afterwards must be this sketch, not the other
            loader = s.HeavyHitters.load if kind == "hh" else (s.HyperLogLog.load if kind == "hll" else s.countmin.load)
            decoy = loader(path)
            decoy.add(b"decoy-key-\x01", 3)
            decoy.save(path)
            del decoy
            sketch.save(path)
        if kind == "hh":
            return s.HeavyHitters.load(path, shared_memory)
        if kind == "hll":
            return s.HyperLogLog.load(path, shared_memory)
        if via_module:
            return s.countmin.load(path, shared_memory)
        return {"linear": s.CountMinLinear, "log16": s.CountMinLog16, "log8": s.CountMinLog8}[kind].load(path, shared_memory)
    finally:
        try:
            os.unlink(path)
        except OSError:
            pass
        if cwd is not None:
            os.chdir(cwd)
