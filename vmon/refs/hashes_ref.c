/* C reference of FastHash (Zilong Tan) and MurmurHash3_x86_32 (Austin Appleby), written from the
 * published algorithms with memcpy-based loads (no unaligned or out-of-bounds access), built by
 * setup.sh with clang -fsanitize=address,undefined so that the oracle itself is checked.
 * stdin: lines "<hex bytes or -> <uint64 seed>"; stdout: "<fasthash64> <fasthash32> <murmur3(seed & 0xffffffff)>".
 */
#include <stdint.h>
#include <stdio.h>
#include <stdlib.h>
#include <string.h>

static inline uint64_t mix(uint64_t h) { h ^= h >> 23; h *= 0x2127599bf4325c37ULL; h ^= h >> 47; return h; }

static uint64_t fasthash64(const unsigned char *buf, size_t len, uint64_t seed) {
    const uint64_t m = 0x880355f21e6d1965ULL;
    uint64_t h = seed ^ (len * m);
    size_t nblocks = len / 8;
    for (size_t i = 0; i < nblocks; i++) {
        uint64_t v; memcpy(&v, buf + 8 * i, 8);
        h ^= mix(v); h *= m;
    }
    const unsigned char *p = buf + 8 * nblocks;
    uint64_t v = 0;
    switch (len & 7) {
    case 7: v ^= (uint64_t)p[6] << 48; /* fallthrough */
    case 6: v ^= (uint64_t)p[5] << 40; /* fallthrough */
    case 5: v ^= (uint64_t)p[4] << 32; /* fallthrough */
    case 4: v ^= (uint64_t)p[3] << 24; /* fallthrough */
    case 3: v ^= (uint64_t)p[2] << 16; /* fallthrough */
    case 2: v ^= (uint64_t)p[1] << 8;  /* fallthrough */
    case 1: v ^= (uint64_t)p[0];
        h ^= mix(v); h *= m;
    }
    return mix(h);
}

static uint32_t fasthash32(const unsigned char *buf, size_t len, uint64_t seed) {
    uint64_t h = fasthash64(buf, len, seed);
    return (uint32_t)(h - (h >> 32));
}

static inline uint32_t rotl32(uint32_t x, int r) { return (x << r) | (x >> (32 - r)); }

static uint32_t murmur3_32(const unsigned char *data, size_t len, uint32_t seed) {
    const uint32_t c1 = 0xcc9e2d51, c2 = 0x1b873593;
    uint32_t h1 = seed;
    size_t nblocks = len / 4;
    for (size_t i = 0; i < nblocks; i++) {
        uint32_t k1; memcpy(&k1, data + 4 * i, 4);
        k1 *= c1; k1 = rotl32(k1, 15); k1 *= c2;
        h1 ^= k1; h1 = rotl32(h1, 13); h1 = h1 * 5 + 0xe6546b64;
    }
    const unsigned char *tail = data + 4 * nblocks;
    uint32_t k1 = 0;
    switch (len & 3) {
    case 3: k1 ^= (uint32_t)tail[2] << 16; /* fallthrough */
    case 2: k1 ^= (uint32_t)tail[1] << 8;  /* fallthrough */
    case 1: k1 ^= tail[0];
        k1 *= c1; k1 = rotl32(k1, 15); k1 *= c2; h1 ^= k1;
    }
    h1 ^= (uint32_t)len;
    h1 ^= h1 >> 16; h1 *= 0x85ebca6b; h1 ^= h1 >> 13; h1 *= 0xc2b2ae35; h1 ^= h1 >> 16;
    return h1;
}

static int hexval(int c) {
    if (c >= '0' && c <= '9') return c - '0';
    if (c >= 'a' && c <= 'f') return c - 'a' + 10;
    if (c >= 'A' && c <= 'F') return c - 'A' + 10;
    return -1;
}

int main(void) {
    char *line = NULL; size_t cap = 0; ssize_t n;
    while ((n = getline(&line, &cap, stdin)) > 0) {
        char *sp = strchr(line, ' ');
        if (!sp) continue;
        *sp = 0;
        size_t hl = strlen(line);
        size_t len = 0;
        unsigned char *buf = malloc(hl / 2 + 1);   /* exact-size heap buffer: ASan red zones right behind it */
        if (!(hl == 1 && line[0] == '-')) {
            for (size_t i = 0; i + 1 < hl; i += 2) buf[len++] = (unsigned char)(hexval(line[i]) * 16 + hexval(line[i + 1]));
        }
        unsigned char *exact = malloc(len ? len : 1);
        memcpy(exact, buf, len);
        uint64_t seed = strtoull(sp + 1, NULL, 10);
        printf("%llu %u %u\n", (unsigned long long)fasthash64(exact, len, seed), fasthash32(exact, len, seed),
               murmur3_32(exact, len, (uint32_t)(seed & 0xffffffffULL)));
        free(exact); free(buf);
    }
    free(line);
    return 0;
}
