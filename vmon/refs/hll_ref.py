"""Independent model of the HyperLogLog++ sketch: register contents from a key set, and the estimator.

Hash: vmon.refs.hashes_ref.fasthash64 (independent of sketchnu.hashes).  The bias / raw-estimate /
threshold tables are *data shipped by the repository* and are taken from it (trusted data, see C17).
"""
import math

import numpy as np

from . import hashes_ref


def rank_and_index(h: int, p: int):
    """register index = low p bits; rank = 1 + number of leading zeros of the remaining 64-p bits."""
    idx = h & ((1 << p) - 1)
    rest = h >> p  # a (64-p)-bit value
    width = 64 - p
    rank = width - rest.bit_length() + 1
    return idx, rank


def registers_for(keys, p: int, seed: int) -> np.ndarray:
    reg = np.zeros(1 << p, np.uint8)
    for k in keys:
        idx, rank = rank_and_index(hashes_ref.fasthash64(k, seed), p)
        if rank > reg[idx]:
            reg[idx] = rank
    return reg


def windows(key: bytes, n: int):
    """The keys add_ngram(key, n) must add: every length-n window, or key itself when len(key) <= n."""
    if len(key) <= n:
        return [key]
    return [key[i: i + n] for i in range(len(key) - n + 1)]


def estimate(registers: np.ndarray, p: int, threshold: float, raw_estimate: np.ndarray, bias_data: np.ndarray) -> float:
    m = 1 << p
    reg = np.asarray(registers, dtype=np.float64)
    v = int(m - np.count_nonzero(registers))
    alpha = 0.7213 / (1.0 + 1.079 / m)

    def raw():
        # summed in the same order as a sequential loop so the comparison can be tight
        total = 0.0
        for r in reg:
            total += 2.0 ** (-r)
        return alpha * float(m) * float(m) / total

    if v > 0:
        lc = m * math.log(m / v)
        if lc <= threshold:
            return lc
        e = raw()
        return e - float(np.interp(e, raw_estimate, bias_data))
    e = raw()
    if e <= 5 * m:
        return e - float(np.interp(e, raw_estimate, bias_data))
    return e


def estimate_fast(registers: np.ndarray, p: int, threshold: float, raw_estimate: np.ndarray, bias_data: np.ndarray) -> float:
    """Same estimator with a vectorised (pairwise) sum; used with a relative tolerance."""
    m = 1 << p
    v = int(m - np.count_nonzero(registers))
    alpha = 0.7213 / (1.0 + 1.079 / m)
    counts = np.bincount(registers, minlength=80).astype(np.float64)
    total = float(np.sum(counts * (2.0 ** (-np.arange(len(counts), dtype=np.float64)))))
    e = alpha * float(m) * float(m) / total
    if v > 0:
        lc = m * math.log(m / v)
        if lc <= threshold:
            return lc
        return e - float(np.interp(e, raw_estimate, bias_data))
    if e <= 5 * m:
        return e - float(np.interp(e, raw_estimate, bias_data))
    return e
