"""Independent pure-Python references for FastHash (Zilong Tan, fasthash.c) and MurmurHash3_x86_32
(Austin Appleby), written from the published algorithms.  No import of sketchnu.

Also: the inverse of FastHash's mix, used to craft seeds that drive fasthash64(key, seed) to a
chosen 64-bit value for keys shorter than 8 bytes.
"""
M64 = (1 << 64) - 1
M32 = (1 << 32) - 1
FH_M = 0x880355F21E6D1965
FH_MIX = 0x2127599BF4325C37
FH_M_INV = pow(FH_M, -1, 1 << 64)
FH_MIX_INV = pow(FH_MIX, -1, 1 << 64)


def _mix(h):
    h ^= h >> 23
    h = (h * FH_MIX) & M64
    h ^= h >> 47
    return h


def _unmix(h):
    h ^= h >> 47
    h = (h * FH_MIX_INV) & M64
    h = h ^ (h >> 23) ^ (h >> 46)
    return h & M64


def fasthash64(buf: bytes, seed: int) -> int:
    n = len(buf)
    h = (seed ^ ((n * FH_M) & M64)) & M64
    nblocks = n // 8
    for i in range(nblocks):
        v = int.from_bytes(buf[8 * i: 8 * i + 8], "little")
        h ^= _mix(v)
        h = (h * FH_M) & M64
    tail = buf[8 * nblocks:]
    if tail:
        v = int.from_bytes(tail, "little")  # v ^= tail[i] << 8*i
        h ^= _mix(v)
        h = (h * FH_M) & M64
    return _mix(h)


def fasthash32(buf: bytes, seed: int) -> int:
    h = fasthash64(buf, seed)
    return (h - (h >> 32)) & M32


def seed_for_target(buf: bytes, target: int) -> int:
    """A seed with fasthash64(buf, seed) == target, for len(buf) < 8."""
    assert len(buf) < 8
    n = len(buf)
    h = _unmix(target & M64)
    if n:
        h = (h * FH_M_INV) & M64
        h ^= _mix(int.from_bytes(buf, "little"))
    return (h ^ ((n * FH_M) & M64)) & M64


def _rotl32(x, r):
    return ((x << r) | (x >> (32 - r))) & M32


def murmur3_32(buf: bytes, seed: int) -> int:
    c1, c2 = 0xCC9E2D51, 0x1B873593
    n = len(buf)
    h = seed & M32
    nblocks = n // 4
    for i in range(nblocks):
        k = int.from_bytes(buf[4 * i: 4 * i + 4], "little")
        k = (k * c1) & M32
        k = _rotl32(k, 15)
        k = (k * c2) & M32
        h ^= k
        h = _rotl32(h, 13)
        h = (h * 5 + 0xE6546B64) & M32
    tail = buf[4 * nblocks:]
    if tail:
        k = int.from_bytes(tail, "little")
        k = (k * c1) & M32
        k = _rotl32(k, 15)
        k = (k * c2) & M32
        h ^= k
    h ^= n & M32
    h ^= h >> 16
    h = (h * 0x85EBCA6B) & M32
    h ^= h >> 13
    h = (h * 0xC2B2AE35) & M32
    h ^= h >> 16
    return h


# ---------------------------------------------------------------------------------------------
# steering: inputs constructed (by inverting the block functions) so that a chosen internal state, or the
# output, takes a chosen value.  Only used to *generate* inputs; the forward functions above stay the oracle.
# ---------------------------------------------------------------------------------------------
def fasthash64_states(buf: bytes, seed: int):
    """[state before block 0, after block 0, ..., after the last full block, (after the tail)] - the last entry is what the
    final mix is applied to."""
    n = len(buf)
    h = (seed ^ ((n * FH_M) & M64)) & M64
    out = [h]
    nblocks = n // 8
    for i in range(nblocks):
        h ^= _mix(int.from_bytes(buf[8 * i: 8 * i + 8], "little"))
        h = (h * FH_M) & M64
        out.append(h)
    tail = buf[8 * nblocks:]
    if tail:
        h ^= _mix(int.from_bytes(tail, "little"))
        h = (h * FH_M) & M64
        out.append(h)
    return out


def fasthash64_steer(buf: bytes, seed: int, index: int, value: int):
    """(buf', seed') equal to (buf, seed) except for one full block (or the seed, when the state to steer is reached before any
    full block) such that fasthash64_states(buf', seed')[index] == value.  index == -1 / 'out' steers the returned hash."""
    n = len(buf)
    nblocks = n // 8
    tail = buf[8 * nblocks:]
    states = fasthash64_states(buf, seed)
    if index == "out":
        index, value = len(states) - 1, _unmix(value & M64)
    if index < 0:
        index += len(states)
    value &= M64
    if index == nblocks + 1:
        # the state after the tail: move the requirement to the state after the last full block
        value = ((value * FH_M_INV) & M64) ^ _mix(int.from_bytes(tail, "little"))
        index = nblocks
    if index == 0:
        return buf, (value ^ ((n * FH_M) & M64)) & M64
    prev = states[index - 1]
    v = _unmix(prev ^ ((value * FH_M_INV) & M64))
    b = bytearray(buf)
    b[8 * (index - 1): 8 * index] = v.to_bytes(8, "little")
    return bytes(b), seed


MM_C1, MM_C2 = 0xCC9E2D51, 0x1B873593
MM_C1_INV, MM_C2_INV = pow(MM_C1, -1, 1 << 32), pow(MM_C2, -1, 1 << 32)
MM_5_INV = pow(5, -1, 1 << 32)
MM_F1_INV, MM_F2_INV = pow(0x85EBCA6B, -1, 1 << 32), pow(0xC2B2AE35, -1, 1 << 32)


def _mm_k(k):
    return (_rotl32((k * MM_C1) & M32, 15) * MM_C2) & M32


def _mm_unk(kp):
    return (_rotl32((kp * MM_C2_INV) & M32, 17) * MM_C1_INV) & M32


def _unfmix32(h):
    h ^= h >> 16
    h = (h * MM_F2_INV) & M32
    h ^= (h >> 13) ^ (h >> 26)
    h = (h * MM_F1_INV) & M32
    h ^= h >> 16
    return h & M32


def murmur3_states(buf: bytes, seed: int):
    """[seed, state after block 0, ..., after the last full block, (after the tail xor)]; fmix32(last ^ len) is returned."""
    n = len(buf)
    h = seed & M32
    out = [h]
    nblocks = n // 4
    for i in range(nblocks):
        h ^= _mm_k(int.from_bytes(buf[4 * i: 4 * i + 4], "little"))
        h = _rotl32(h, 13)
        h = (h * 5 + 0xE6546B64) & M32
        out.append(h)
    tail = buf[4 * nblocks:]
    if tail:
        h ^= _mm_k(int.from_bytes(tail, "little"))
        out.append(h)
    return out


def murmur3_steer(buf: bytes, seed: int, index, value: int):
    n = len(buf)
    nblocks = n // 4
    tail = buf[4 * nblocks:]
    states = murmur3_states(buf, seed)
    if index == "out":
        index, value = len(states) - 1, _unfmix32(value & M32) ^ (n & M32)
    if index < 0:
        index += len(states)
    value &= M32
    if index == nblocks + 1:
        value ^= _mm_k(int.from_bytes(tail, "little"))
        index = nblocks
    if index == 0:
        return buf, value
    prev = states[index - 1]
    x = _rotl32(((value - 0xE6546B64) * MM_5_INV) & M32, 19)  # rotr 13
    k = _mm_unk(x ^ prev)
    b = bytearray(buf)
    b[4 * (index - 1): 4 * index] = k.to_bytes(4, "little")
    return bytes(b), seed


# Published MurmurHash3_x86_32 vectors that do not come from the repository under test.
MURMUR3_VECTORS = [
    (b"", 0, 0x00000000),
    (b"", 1, 0x514E28B7),
    (b"", 0xFFFFFFFF, 0x81F16F39),
    (b"\xff\xff\xff\xff", 0, 0x76293B50),
    (b"\x21\x43\x65\x87", 0, 0xF55B516B),
    (b"\x21\x43\x65\x87", 0x5082EDEE, 0x2362F9DE),
    (b"\x21\x43\x65", 0, 0x7E4A8634),
    (b"\x21\x43", 0, 0xA0F7B07A),
    (b"\x21", 0, 0x72661CF4),
    (b"\x00\x00\x00\x00", 0, 0x2362F9DE),
    (b"\x00\x00\x00", 0, 0x85F0B427),
    (b"\x00\x00", 0, 0x30F4C306),
    (b"\x00", 0, 0x514E28B7),
    (b"test", 0, 0xBA6BD213),
    (b"Hello, world!", 0x9747B28C, 0x24884CBA),
    (b"The quick brown fox jumps over the lazy dog", 0x9747B28C, 0x2FA826CD),
]


def self_test():
    for buf, seed, want in MURMUR3_VECTORS:
        got = murmur3_32(buf, seed)
        assert got == want, (buf, seed, hex(got), hex(want))
    # mix/unmix are inverse
    for x in (0, 1, 0xDEADBEEF, M64, 0x0123456789ABCDEF):
        assert _unmix(_mix(x)) == x and _mix(_unmix(x)) == x
    for buf in (b"", b"a", b"abc", b"\0\0\0\0\0\0\0"):
        for t in (0, 1, M64, 1 << 63, 0x1234):
            assert fasthash64(buf, seed_for_target(buf, t)) == t
    import random
    rnd = random.Random(5)
    for n in list(range(0, 40)) + [64, 67]:
        buf = bytes(rnd.randrange(256) for _ in range(n))
        seed = rnd.randrange(1 << 64)
        st = fasthash64_states(buf, seed)
        assert _mix(st[-1]) == fasthash64(buf, seed)
        for idx in list(range(len(st))) + ["out"]:
            for val in (0, 1, M64, 1 << 63, rnd.randrange(1 << 64)):
                b2, s2 = fasthash64_steer(buf, seed, idx, val)
                assert len(b2) == n
                if idx == "out":
                    assert fasthash64(b2, s2) == val, (n, idx, val)
                else:
                    assert fasthash64_states(b2, s2)[idx] == val, (n, idx, val)
        seed &= M32
        st = murmur3_states(buf, seed)
        for idx in list(range(len(st))) + ["out"]:
            for val in (0, 1, M32, 1 << 31, rnd.randrange(1 << 32)):
                b2, s2 = murmur3_steer(buf, seed, idx, val)
                assert len(b2) == n
                if idx == "out":
                    assert murmur3_32(b2, s2) == val, (n, idx, val)
                else:
                    assert murmur3_states(b2, s2)[idx] == val, (n, idx, val)
    return True
