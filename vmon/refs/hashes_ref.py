"""Independent pure-Python references for FastHash (Zilong Tan, fasthash.c) and MurmurHash3_x86_32
(Austin Appleby), written from the published algorithms.  No import of sketchnu.

Also: the inverse of FastHash's mix, used to craft seeds that drive fasthash64(key, seed) to a
chosen 64-bit value for keys shorter than 8 bytes.
"""
M64 = (1 << 64) - 1
M32 = (1 << 32) - 1
FH_M = 0x880355F21E6D1965
FH_MIX = 0x2127599BF4325C37
FH_M_INV = pow(FH_M, -1, 1 << 64)
FH_MIX_INV = pow(FH_MIX, -1, 1 << 64)


def _mix(h):
    h ^= h >> 23
    h = (h * FH_MIX) & M64
    h ^= h >> 47
    return h


def _unmix(h):
    h ^= h >> 47
    h = (h * FH_MIX_INV) & M64
    h = h ^ (h >> 23) ^ (h >> 46)
    return h & M64


def fasthash64(buf: bytes, seed: int) -> int:
    n = len(buf)
    h = (seed ^ ((n * FH_M) & M64)) & M64
    nblocks = n // 8
    for i in range(nblocks):
        v = int.from_bytes(buf[8 * i: 8 * i + 8], "little")
        h ^= _mix(v)
        h = (h * FH_M) & M64
    tail = buf[8 * nblocks:]
    if tail:
        v = int.from_bytes(tail, "little")  # v ^= tail[i] << 8*i
        h ^= _mix(v)
        h = (h * FH_M) & M64
    return _mix(h)


def fasthash32(buf: bytes, seed: int) -> int:
    h = fasthash64(buf, seed)
    return (h - (h >> 32)) & M32


def seed_for_target(buf: bytes, target: int) -> int:
    """A seed with fasthash64(buf, seed) == target, for len(buf) < 8."""
    assert len(buf) < 8
    n = len(buf)
    h = _unmix(target & M64)
    if n:
        h = (h * FH_M_INV) & M64
        h ^= _mix(int.from_bytes(buf, "little"))
    return (h ^ ((n * FH_M) & M64)) & M64


def _rotl32(x, r):
    return ((x << r) | (x >> (32 - r))) & M32


def murmur3_32(buf: bytes, seed: int) -> int:
    c1, c2 = 0xCC9E2D51, 0x1B873593
    n = len(buf)
    h = seed & M32
    nblocks = n // 4
    for i in range(nblocks):
        k = int.from_bytes(buf[4 * i: 4 * i + 4], "little")
        k = (k * c1) & M32
        k = _rotl32(k, 15)
        k = (k * c2) & M32
        h ^= k
        h = _rotl32(h, 13)
        h = (h * 5 + 0xE6546B64) & M32
    tail = buf[4 * nblocks:]
    if tail:
        k = int.from_bytes(tail, "little")
        k = (k * c1) & M32
        k = _rotl32(k, 15)
        k = (k * c2) & M32
        h ^= k
    h ^= n & M32
    h ^= h >> 16
    h = (h * 0x85EBCA6B) & M32
    h ^= h >> 13
    h = (h * 0xC2B2AE35) & M32
    h ^= h >> 16
    return h


# Published MurmurHash3_x86_32 vectors that do not come from the repository under test.
MURMUR3_VECTORS = [
    (b"", 0, 0x00000000),
    (b"", 1, 0x514E28B7),
    (b"", 0xFFFFFFFF, 0x81F16F39),
    (b"\xff\xff\xff\xff", 0, 0x76293B50),
    (b"\x21\x43\x65\x87", 0, 0xF55B516B),
    (b"\x21\x43\x65\x87", 0x5082EDEE, 0x2362F9DE),
    (b"\x21\x43\x65", 0, 0x7E4A8634),
    (b"\x21\x43", 0, 0xA0F7B07A),
    (b"\x21", 0, 0x72661CF4),
    (b"\x00\x00\x00\x00", 0, 0x2362F9DE),
    (b"\x00\x00\x00", 0, 0x85F0B427),
    (b"\x00\x00", 0, 0x30F4C306),
    (b"\x00", 0, 0x514E28B7),
    (b"test", 0, 0xBA6BD213),
    (b"Hello, world!", 0x9747B28C, 0x24884CBA),
    (b"The quick brown fox jumps over the lazy dog", 0x9747B28C, 0x2FA826CD),
]


def self_test():
    for buf, seed, want in MURMUR3_VECTORS:
        got = murmur3_32(buf, seed)
        assert got == want, (buf, seed, hex(got), hex(want))
    # mix/unmix are inverse
    for x in (0, 1, 0xDEADBEEF, M64, 0x0123456789ABCDEF):
        assert _unmix(_mix(x)) == x and _mix(_unmix(x)) == x
    for buf in (b"", b"a", b"abc", b"\0\0\0\0\0\0\0"):
        for t in (0, 1, M64, 1 << 63, 0x1234):
            assert fasthash64(buf, seed_for_target(buf, t)) == t
    return True
