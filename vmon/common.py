"""Shared machinery: run context, monitor (event counters, invariant evaluations, verdicts), helpers.

Nothing in here imports sketchnu at module import time; `sk()` does it lazily so that the cli can
decide about sharding/replay before paying for the JIT import.
"""
from __future__ import annotations

import hashlib
import json
import os
import sys
import time
import traceback
import zlib
from collections import Counter, defaultdict

import numpy as np

VERIF_HOME = os.environ.get("VERIF_HOME", os.path.dirname(os.path.dirname(os.path.abspath(__file__))))
VERIF_REPO = os.environ.get("VERIF_REPO", "/repo")
CAP = 2**32 - 1

_SK = None


def sk():
    """Import the real sketchnu package from the working tree under test (once)."""
    global _SK
    if _SK is None:
        t0 = time.time()
        import sketchnu  # noqa: F401
        import sketchnu.countmin as countmin
        import sketchnu.hashes as hashes
        import sketchnu.heavyhitters as heavyhitters
        import sketchnu.helpers as helpers
        import sketchnu.hyperloglog as hyperloglog

        root = os.path.realpath(os.path.dirname(os.path.dirname(sketchnu.__file__)))
        if root != os.path.realpath(VERIF_REPO):
            raise HarnessError(f"sketchnu imported from {root}, expected {VERIF_REPO}")

        class _NS:
            pass

        ns = _NS()
        ns.pkg = sketchnu
        ns.countmin = countmin
        ns.hashes = hashes
        ns.heavyhitters = heavyhitters
        ns.helpers = helpers
        ns.hyperloglog = hyperloglog
        ns.CountMin = countmin.CountMin
        ns.CountMinLinear = countmin.CountMinLinear
        ns.CountMinLog16 = countmin.CountMinLog16
        ns.CountMinLog8 = countmin.CountMinLog8
        ns.HeavyHitters = heavyhitters.HeavyHitters
        ns.HyperLogLog = hyperloglog.HyperLogLog
        ns.import_s = time.time() - t0
        _SK = ns
    return _SK


class HarnessError(Exception):
    """The harness itself could not do its job (exit 2, never a VIOLATION)."""


class CaseAbort(Exception):
    """Raised by Monitor.fail to leave the current case after a monitor fired."""


class StopRun(Exception):
    """Enough violations collected; stop generating cases."""


def hx(b: bytes) -> str:
    return bytes(b).hex()


def unhx(s: str) -> bytes:
    return bytes.fromhex(s)


def jdefault(o):
    if isinstance(o, (bytes, bytearray)):
        return "hex:" + bytes(o).hex()
    if isinstance(o, np.integer):
        return int(o)
    if isinstance(o, np.floating):
        return float(o)
    if isinstance(o, np.ndarray):
        return o.tolist()
    if isinstance(o, (set, frozenset)):
        return sorted(o, key=repr)
    return repr(o)


def jdump(o, **kw):
    return json.dumps(o, default=jdefault, sort_keys=True, **kw)


def digest_of(o) -> str:
    return hashlib.sha1(jdump(o).encode()).hexdigest()[:16]


def crc(s: str) -> int:
    return zlib.crc32(s.encode()) & 0x7FFFFFFF


class Ctx:
    """Run context: tier, seed, shard, time budget, deterministic RNG streams."""

    def __init__(self, prop, tier="quick", seed=0, shard=0, nshards=1, budget_s=None, opts=None):
        self.prop = prop
        self.tier = tier
        self.seed = int(seed)
        self.shard = int(shard)
        self.nshards = int(nshards)
        self.t0 = time.time()
        self.budget_s = budget_s
        self.opts = opts or {}

    @property
    def quick(self):
        return self.tier == "quick"

    @property
    def thorough(self):
        return self.tier == "thorough"

    def rng(self, *names):
        key = [self.seed & 0xFFFFFFFF, (self.seed >> 32) & 0xFFFFFFFF, crc(self.prop), self.shard]
        for n in names:
            key.append(crc(str(n)) if not isinstance(n, (int, np.integer)) else int(n) & 0x7FFFFFFF)
        return np.random.default_rng(key)

    def elapsed(self):
        return time.time() - self.t0

    def expired(self, frac=1.0):
        return self.budget_s is not None and self.elapsed() > self.budget_s * frac

    def pick(self, quick, thorough):
        return quick if self.quick else thorough


THREAD_COUNTS = os.environ.get("VERIF_THREAD_COUNTS", "1") == "1"
_THREAD_CYCLE = None


def _set_threads(i):
    """numba.set_num_threads(cycle[i]) with cycle = (max, 1, 3, max, 2) clipped to what NUMBA_NUM_THREADS allows."""
    global _THREAD_CYCLE
    try:
        import numba

        if _THREAD_CYCLE is None:
            mx = int(numba.config.NUMBA_NUM_THREADS)
            _THREAD_CYCLE = [min(x, mx) for x in (mx, 1, 3, mx, 2)]
        numba.set_num_threads(_THREAD_CYCLE[i % len(_THREAD_CYCLE)])
    except Exception:  # noqa: BLE001
        pass


AMBIENT = os.environ.get("VERIF_AMBIENT", "1") == "1"
_AMBIENT_SAVED = None
_AMBIENT_ERR = None
_TZS = ("UTC", "Asia/Kathmandu", "America/St_Johns", "Pacific/Kiritimati")


def _ambient_set(phase):
    """Process-wide state that belongs to the caller, not to the library, and that no property mentions: NumPy's floating-point
    error mode, the garbage collector's schedule, the interpreter's thread switch interval, the umask, the time zone, NumPy's
    print options.  Two cases of three run under the defaults; the third runs under a combination derived from the case, restored
    when the case ends.  Returns a short label for the evidence."""
    global _AMBIENT_SAVED
    if not AMBIENT or phase % 3 != 2:
        return "default"
    import gc
    import sys
    import time

    import numpy as np

    k = phase // 3
    saved = {"err": np.geterr(), "gc_enabled": gc.isenabled(), "gc_thr": gc.get_threshold(), "swi": sys.getswitchinterval(),
             "tz": os.environ.get("TZ"), "print": np.get_printoptions()}
    label = []
    # the floating-point error mode is in force around every monitored call into the library (Monitor.api), not process-wide:
    # the reference computations of the monitors themselves must not change behaviour with it
    global _AMBIENT_ERR
    _AMBIENT_ERR = ("raise", "ignore", "warn", "raise")[k % 4]
    label.append("err=" + _AMBIENT_ERR)
    g = k // 4 % 3
    if g == 1:
        gc.disable()
        label.append("gc=off")
    elif g == 2:
        gc.set_threshold(3, 10, 1000)
        label.append("gc=eager")
    if k // 12 % 2:
        sys.setswitchinterval(1e-5)
        label.append("switch=10us")
    saved["umask"] = os.umask((0o077, 0o000, 0o027)[k // 24 % 3])
    label.append("umask")
    os.environ["TZ"] = _TZS[k // 72 % len(_TZS)]
    time.tzset()
    label.append("tz=" + os.environ["TZ"])
    if k // 5 % 2:
        np.set_printoptions(precision=1, threshold=3, edgeitems=1, linewidth=20)
        label.append("print=tiny")
    if k // 7 % 2:
        import logging

        saved["logging_disable"] = logging.root.manager.disable
        logging.disable(logging.CRITICAL)
        label.append("logging=disabled")
    _AMBIENT_SAVED = saved
    return ",".join(label)


def _ambient_restore():
    global _AMBIENT_SAVED, _AMBIENT_ERR
    saved, _AMBIENT_SAVED = _AMBIENT_SAVED, None
    _AMBIENT_ERR = None
    if saved is None:
        return
    import gc
    import sys
    import time

    import numpy as np

    np.seterr(**saved["err"])
    gc.set_threshold(*saved["gc_thr"])
    (gc.enable if saved["gc_enabled"] else gc.disable)()
    sys.setswitchinterval(saved["swi"])
    os.umask(saved["umask"])
    if saved["tz"] is None:
        os.environ.pop("TZ", None)
    else:
        os.environ["TZ"] = saved["tz"]
    time.tzset()
    np.set_printoptions(**saved["print"])
    if "logging_disable" in saved:
        import logging

        logging.disable(saved["logging_disable"])


class Monitor:
    """Collects what the monitors observed and decides the three-valued verdict.

    check(ok, clause, **detail) is one invariant evaluation.  A failed evaluation is classified
    against the committed known findings (mechanism predicates, see vmon/known.py); an unlisted one is
    a violation and aborts the current case.
    """

    MAX_VIOLATIONS = 3

    def __init__(self, prop, ctx: Ctx):
        self.prop = prop
        self.ctx = ctx
        self.evaluations = 0
        self.by_clause = Counter()
        self.counters = Counter()
        self.classes = defaultdict(set)
        self.case_digests = set()
        self.nontrivial_digests = set()
        self.samples = []
        self.violations = []
        self.known = {}
        self.fixed_seen = {}
        self.inconclusive = []
        self.notes = []
        self.n_cases = 0
        self._case = None
        self._case_flags = None
        self._case_nontrivial = False
        self._extra = {}

    # -- case bracket -------------------------------------------------------------------------
    def begin_case(self, case):
        self._case = case
        self._case_nontrivial = False
        self.n_cases += 1
        # process-wide state a caller may change between two calls into the library: Numba's thread count (numba.set_num_threads).
        # It starts at a value derived from the case and moves on every 7th monitored call, so that sketches are built, filled,
        # merged and queried under different and changing counts (1, 2, 3, the maximum); replaying a case replays the same counts.
        self._api_n = 0
        if THREAD_COUNTS:
            try:
                self._thread_phase = int(digest_of(case)[:6], 16)
            except Exception:  # noqa: BLE001
                self._thread_phase = self.n_cases
            _set_threads(self._thread_phase)
        try:
            from . import state as _state

            _state.reset_layouts(getattr(self, "_thread_phase", self.n_cases) // 7)
        except Exception:  # noqa: BLE001
            pass
        # process-wide state owned by the caller (floating-point error mode, collector schedule, switch interval, umask, time zone)
        _ambient_restore()
        lab = _ambient_set(getattr(self, "_thread_phase", self.n_cases) // 5)
        if lab != "default":
            self.counters["cases_under_changed_ambient_state"] += 1
            for part in lab.split(","):
                self.classes["ambient_state"].add(part)

    def nontrivial(self, flag=True):
        if flag:
            self._case_nontrivial = True

    def end_case(self):
        case = self._case
        _ambient_restore()
        if case is None:
            return
        d = digest_of(case)
        self.case_digests.add(d)
        if self._case_nontrivial:
            self.nontrivial_digests.add(d)
            if len(self.samples) < 3:
                self.samples.append(_shorten(case))
        elif len(self.samples) == 0 and self.n_cases > 50:
            self.samples.append(_shorten(case))
        self._case = None

    # -- observations -------------------------------------------------------------------------
    def count(self, name, n=1):
        self.counters[name] += n

    def seen(self, klass, value):
        self.classes[klass].add(value)

    def tick(self, clause, n=1):
        """n invariant evaluations of `clause` that all held (vectorised checks)."""
        self.evaluations += n
        self.by_clause[clause] += n

    def check(self, ok, clause, **detail):
        self.evaluations += 1
        self.by_clause[clause] += 1
        if not ok:
            self.fail(clause, **detail)
        return ok

    def fail(self, clause, **detail):
        from . import known

        witness = {
            "property": self.prop,
            "clause": clause,
            "detail": detail,
            "case": self._case,
            "tier": self.ctx.tier,
            "seed": self.ctx.seed,
            "shard": self.ctx.shard,
        }
        kf = known.classify(self.prop, clause, detail, self._case)
        if kf is not None:
            ent = self.known.setdefault(kf["id"], {"what": kf["what"], "count": 0, "first": _shorten(witness)})
            ent["count"] += 1
            return  # a listed finding neither fails the run nor ends the case: the rest of the case is still monitored
        self.violations.append(witness)
        if len(self.violations) >= self.MAX_VIOLATIONS:
            raise StopRun()
        raise CaseAbort()

    def api(self, fn, *args, **kw):
        """Call the code under test; an exception out of a valid call is a violation."""
        if THREAD_COUNTS:
            self._api_n = getattr(self, "_api_n", 0) + 1
            if self._api_n % 7 == 0:
                _set_threads(getattr(self, "_thread_phase", 0) + self._api_n // 7)
                self.counters["numba_thread_count_changes"] += 1
        try:
            if _AMBIENT_ERR is not None:
                import numpy as np

                with np.errstate(all=_AMBIENT_ERR):
                    return fn(*args, **kw)
            return fn(*args, **kw)
        except (CaseAbort, StopRun):
            raise
        except Exception as exc:  # noqa: BLE001
            self.evaluations += 1
            self.fail(
                "unexpected-exception",
                call=getattr(fn, "__qualname__", repr(fn)),
                exc=f"{type(exc).__name__}: {exc}",
                tb=traceback.format_exc(limit=6),
            )

    def floor(self, name, have, need):
        self._extra.setdefault("coverage_floors", []).append([name, int(have), int(need)])
        if have < need:
            self.inconclusive.append(f"coverage floor not met: {name}: {have} < {need}")

    def extra(self, **kw):
        self._extra.update(kw)

    # -- serialisation (shard -> parent) --------------------------------------------------------
    def to_json(self):
        return {
            "evaluations": self.evaluations,
            "by_clause": dict(self.by_clause),
            "counters": dict(self.counters),
            "classes": {k: sorted(v, key=repr) for k, v in self.classes.items()},
            "case_digests": sorted(self.case_digests),
            "nontrivial_digests": sorted(self.nontrivial_digests),
            "samples": self.samples,
            "violations": self.violations,
            "known": self.known,
            "inconclusive": self.inconclusive,
            "notes": self.notes,
            "n_cases": self.n_cases,
            "extra": self._extra,
        }

    def merge_json(self, j):
        self.evaluations += j["evaluations"]
        self.by_clause.update(j["by_clause"])
        self.counters.update(j["counters"])
        for k, v in j["classes"].items():
            self.classes[k].update(_hashable(x) for x in v)
        self.case_digests.update(j["case_digests"])
        self.nontrivial_digests.update(j["nontrivial_digests"])
        for s in j["samples"]:
            if len(self.samples) < 4:
                self.samples.append(s)
        self.violations.extend(j["violations"])
        for k, v in j["known"].items():
            ent = self.known.setdefault(k, {"what": v["what"], "count": 0, "first": v["first"]})
            ent["count"] += v["count"]
        self.inconclusive.extend(j["inconclusive"])
        self.notes.extend(j["notes"])
        self.n_cases += j["n_cases"]
        for k, v in j["extra"].items():
            if isinstance(v, bool) or isinstance(self._extra.get(k), bool):
                self._extra[k] = bool(self._extra.get(k, v)) and bool(v) if k in self._extra else v
            elif isinstance(v, (int, float)) and isinstance(self._extra.get(k), (int, float)):
                if k.startswith(("max", "largest")) or k.endswith(("_max", "_total")):
                    self._extra[k] = max(self._extra[k], v)
                else:
                    self._extra[k] += v
            elif isinstance(v, list) and isinstance(self._extra.get(k), list):
                self._extra[k] = (self._extra[k] + v)[:50]
            else:
                self._extra.setdefault(k, v)


def _hashable(x):
    if isinstance(x, list):
        return tuple(_hashable(y) for y in x)
    return x


def _shorten(o, maxlen=4000):
    """Keep samples/witness previews readable: JSON round trip with long lists clipped."""
    s = json.loads(jdump(o))

    def clip(v, depth=0):
        if isinstance(v, list):
            if len(v) > 24:
                return [clip(x, depth + 1) for x in v[:24]] + [f"... {len(v) - 24} more"]
            return [clip(x, depth + 1) for x in v]
        if isinstance(v, dict):
            return {k: clip(x, depth + 1) for k, x in v.items()}
        if isinstance(v, str) and len(v) > 400:
            return v[:400] + f"...({len(v)} chars)"
        return v

    return clip(s)


def from_repo(exc_tb) -> bool:
    """True when the traceback passes through the package under test."""
    root = os.path.realpath(VERIF_REPO) + os.sep
    for fs in traceback.extract_tb(exc_tb):
        if os.path.realpath(fs.filename).startswith(root):
            return True
    return False


# ---------------------------------------------------------------------------------------------
# key / value generators shared by several properties
# ---------------------------------------------------------------------------------------------
HOT_BYTES = np.array([0x00, 0x00, 0x7F, 0x80, 0xFF, 0x01, 0x61, 0x62], dtype=np.uint8)


def rand_key(rng, min_len=0, max_len=64, hot=0.5) -> bytes:
    n = int(rng.integers(min_len, max_len + 1))
    if n == 0:
        return b""
    if n >= 4 and rng.random() < 0.12:
        # a run of one byte value (0xff / 0x00 / other) of length up to n, then random bytes: windows that equal
        # sentinel patterns, periodic n-grams
        run = int(rng.integers(1, n + 1))
        b = bytes([int(HOT_BYTES[int(rng.integers(0, len(HOT_BYTES)))])]) if rng.random() < 0.8 else bytes([int(rng.integers(0, 256))])
        tail = bytes(rng.integers(0, 256, n - run, dtype=np.uint8))
        return (b * run + tail) if rng.random() < 0.7 else (tail + b * run)
    if rng.random() < hot:
        return bytes(HOT_BYTES[rng.integers(0, len(HOT_BYTES), n)])
    return bytes(rng.integers(0, 256, n, dtype=np.uint8))


def key_family(rng, n_keys, min_len=0, max_len=16, alias=True):
    """Distinct keys including NUL-suffix aliases, prefixes, the empty key and all-NUL keys."""
    keys = []
    seen = set()

    def put(k):
        k = bytes(k)
        if k not in seen and min_len <= len(k) <= max_len:
            seen.add(k)
            keys.append(k)

    if alias:
        if rng.random() < 0.6:
            put(b"")
        if rng.random() < 0.6:
            put(b"\0" * int(rng.integers(1, max(2, min(max_len, 4) + 1))))
    guard = 0
    while len(keys) < n_keys and guard < 20 * n_keys + 50:
        guard += 1
        k = rand_key(rng, min_len, max_len, hot=0.4)
        put(k)
        if alias and len(keys) < n_keys:
            r = rng.random()
            if r < 0.25:
                put(k + b"\0")
            elif r < 0.4 and len(k) > 0:
                put(k[:-1])
            elif r < 0.5:
                put(k.rstrip(b"\0"))
    return keys[:n_keys]


SPECIAL_VALUES = [0, 1, 1, 1, 2, 3, 7, 100, 10**4, CAP - 3, CAP - 2, CAP - 1, CAP, CAP + 1, CAP + 2, 2**32 + 5, 2**40,
                  2**31, 2**31 - 10, CAP // 2, 2**31 + 100,  # two of these overflow a cell only when they meet
                  40000, 65535, 65536, 65537, 255, 256, 2**24, 2**24 + 1]  # narrower-integer and float32 boundaries


def rand_value(rng, big=0.15, zero=0.05):
    r = rng.random()
    if r < zero:
        return 0
    if r < zero + big:
        return int(SPECIAL_VALUES[int(rng.integers(9, len(SPECIAL_VALUES)))])
    if r < 0.6:
        return 1
    if r < 0.9:
        return int(rng.integers(1, 20))
    return int(rng.integers(20, 20000))


def shm_census():
    try:
        return set(n for n in os.listdir("/dev/shm") if n.startswith("psm_"))
    except OSError:
        return set()


_SHM_CREATED = set()
_SHM_TRACKING = False


def track_shm():
    """Record the names of the shared-memory segments *this process* creates (other shards and spawned runs create
    their own; a system-wide census would blame them on us)."""
    global _SHM_TRACKING
    if _SHM_TRACKING:
        return
    from multiprocessing import shared_memory

    orig = shared_memory.SharedMemory.__init__

    def init(self, name=None, create=False, size=0, **kw):
        orig(self, name=name, create=create, size=size, **kw)
        if create:
            _SHM_CREATED.add(self.name.lstrip("/"))

    shared_memory.SharedMemory.__init__ = init
    _SHM_TRACKING = True


def shm_created_alive():
    """Segments created by this process that still exist in /dev/shm."""
    return sorted(n for n in _SHM_CREATED if os.path.exists("/dev/shm/" + n))


def run_cases(ctx, mon, cases, run_case, time_bound=None):
    """Drive `run_case(case, ctx, mon)` over an iterable of cases.

    A fired monitor (CaseAbort) ends that case only; StopRun ends the run; the time budget ends the run
    when `time_bound` (default: thorough tier only) is set.  Exceptions passing through the package
    under test are violations of the property being driven; others are harness errors.
    """
    if time_bound is None:
        time_bound = ctx.thorough
    n = 0
    for case in cases:
        if time_bound and ctx.expired():
            mon.notes.append(f"time budget reached after {n} cases")
            break
        n += 1
        mon.begin_case(case)
        try:
            run_case(case, ctx, mon)
        except CaseAbort:
            pass
        except StopRun:
            mon.end_case()
            raise
        except HarnessError:
            raise
        except Exception as exc:  # noqa: BLE001
            if type(exc).__name__ == "ProbeAnomaly":
                # a single add(key, 1) on an empty probe sketch touched no cell, or several cells, of a row
                try:
                    mon.evaluations += 1
                    mon.fail("one-add-owns-one-cell-per-row", error=str(exc))
                except CaseAbort:
                    pass
                except StopRun:
                    mon.end_case()
                    raise
            elif from_repo(exc.__traceback__):
                try:
                    mon.evaluations += 1
                    mon.fail("unexpected-exception", exc=f"{type(exc).__name__}: {exc}",
                             tb=traceback.format_exc(limit=8))
                except CaseAbort:
                    pass
                except StopRun:
                    mon.end_case()
                    raise
            else:
                raise
        mon.end_case()
    return n


def pick(rng, seq):
    """Uniform choice that keeps Python ints exact (numpy's rng.choice converts big ints to float)."""
    return seq[int(rng.integers(0, len(seq)))]
