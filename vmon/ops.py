"""Operation histories: generation (JSON-serialisable), application to a real sketch, and the ghost
semantics (which (key, multiplicity) pairs an operation adds, in order)."""
from __future__ import annotations

import numpy as np

from .common import CAP, hx, rand_key, rand_value, unhx
from .refs.hll_ref import windows

# op formats (keys are hex strings):
#   ["add", key, v]            add(key, v)            (v omitted -> add(key))
#   ["add1", key]              add(key)
#   ["ulist", [key...]]        update(list)
#   ["udict", [[key, v]...]]   update(dict)   (insertion order preserved)
#   ["ngram", key, n]          add_ngram(key, n)
#   ["ungram", [key...], n]    update_ngram(list, n)
#   ["ulist_nested", [key...], pos]   update(generator) whose production, before item pos, calls update([another key]) on the
#                                     same sketch in the same thread (re-entrant use of update)
# The *form* of each call (positional / keyword arguments under their documented names, list / tuple / generator / iterator /
# map for "a list of keys", dict / Counter / OrderedDict / defaultdict for "a dict") is derived from the operation's content,
# so that a recorded case replays with the same forms.


class BadItem:
    """Stands for an item that no sketch accepts (not bytes): the update must raise when it reaches it."""


def effects(op):
    """The primitive adds (key bytes, multiplicity) an operation is documented to perform, in order."""
    t = op[0]
    if t == "ulist_bad":
        return [(unhx(k), 1) for k in op[1][: op[2]]]  # the part before the unacceptable item
    if t == "ulist_rep":
        ks = [unhx(k) for k in op[1]]  # one very long list: the given keys cycled n times (compact representation)
        return [(ks[i % len(ks)], 1) for i in range(int(op[2]))]
    if t == "add":
        return [(unhx(op[1]), int(op[2]))]
    if t == "add1":
        return [(unhx(op[1]), 1)]
    if t == "ulist":
        return [(unhx(k), 1) for k in op[1]]
    if t == "ulist_nested":
        ks = [unhx(k) for k in op[1]]
        return [(k, 1) for k in ks[: op[2]] + [nested_key(ks)] + ks[op[2]:]]
    if t == "udict":
        return [(unhx(k), int(v)) for k, v in op[1]]
    if t == "ngram":
        return [(w, 1) for w in windows(unhx(op[1]), int(op[2]))]
    if t == "ungram":
        out = []
        for k in op[1]:
            out.extend((w, 1) for w in windows(unhx(k), int(op[2])))
        return out
    raise ValueError(op)


def nested_key(ks):
    """The key the inner, re-entrant update adds: different from every key of the outer call."""
    return ks[0][::-1] + b"\xa5\x5a"


FORMS = True  # argument-form diversity (set False to call every entry point positionally with list/dict arguments)


def _typed(v, salt):
    """The same multiplicity as a Python int or as a NumPy scalar (callers count with either)."""
    v = int(v)
    k = (salt + v) % 4
    if k == 1 and 0 <= v < 2**63:
        return np.int64(v)
    if k == 2 and 0 <= v < 2**32:
        return np.uint32(v)
    if k == 3 and v >= 0:
        return np.uint64(v) if v < 2**64 else v
    return v


def apply_failing(sketch, op):
    """update(list) with an unacceptable item in the middle: must raise; returns the exception's type name (or None)."""
    items = [unhx(k) for k in op[1]]
    items.insert(op[2], "not-bytes" if op[2] % 2 else 12345)
    try:
        sketch.update(items)
    except Exception as exc:  # noqa: BLE001
        return type(exc).__name__
    return None


def apply_op(sketch, op):
    t = op[0]
    if t == "ulist_bad":
        return apply_failing(sketch, op)
    if t == "ulist_rep":
        ks = [unhx(k) for k in op[1]]
        sketch.update([ks[i % len(ks)] for i in range(int(op[2]))])
        return None
    if t == "add":
        k, v = unhx(op[1]), _typed(op[2], len(op[1]))
        form = (len(op[1]) // 2 + int(op[2])) % 6 if FORMS else 0
        if form == 4:
            sketch.add(k, value=v)
        elif form == 5:
            sketch.add(key=k, value=v)
        else:
            sketch.add(k, v)
    elif t == "add1":
        if FORMS and len(op[1]) % 6 == 4:
            sketch.add(key=unhx(op[1]))
        else:
            sketch.add(unhx(op[1]))
    elif t == "ulist":
        ks = [unhx(k) for k in op[1]]
        form = (len(ks) + (len(ks[0]) if ks else 0)) % 9 if FORMS else 0
        if form == 8 and ks and all(0 < len(k) <= 8 and not k.endswith(b"\x00") for k in ks):
            # a NumPy array of fixed-width byte strings (its elements are np.bytes_, a bytes subclass): a tree that accepts it must
            # treat it as the list of its elements; one that refuses it (TypeError at the first key, nothing applied) gets the list
            from . import state

            state.warm_plain_bytes(sketch)
            try:
                sketch.update(np.array(ks, dtype="S8"))
            except TypeError:
                sketch.update(ks)
        elif form == 3:
            sketch.update(k for k in ks)  # a generator: consumed once
        elif form == 4:
            sketch.update(iter(ks))
        elif form == 5:
            sketch.update(map(bytes, ks))
        elif form == 6:
            sketch.update(tuple(ks))
        elif form == 7:
            sketch.update(keys=ks)
        else:
            sketch.update(ks)
    elif t == "ulist_nested":
        ks = [unhx(k) for k in op[1]]

        def produce():
            for i, k in enumerate(ks):
                if i == op[2]:
                    sketch.update([nested_key(ks)])
                yield k
            if op[2] >= len(ks):
                sketch.update([nested_key(ks)])

        sketch.update(produce())
    elif t == "udict":
        d = {unhx(k): _typed(v, i) for i, (k, v) in enumerate(op[1])}
        form = (len(d) + sum(len(k) for k in d)) % 6 if FORMS else 0
        if form == 2:
            import collections

            d = collections.Counter(d)
        elif form == 3:
            import collections

            d = collections.OrderedDict(d)
        elif form == 4:
            import collections

            dd = collections.defaultdict(int)
            dd.update(d)
            d = dd
        if form == 5:
            sketch.update(keys=d)
        else:
            sketch.update(d)
    elif t == "ngram":
        if FORMS and (len(op[1]) + int(op[2])) % 5 == 3:
            sketch.add_ngram(key=unhx(op[1]), ngram=int(op[2]))
        else:
            sketch.add_ngram(unhx(op[1]), int(op[2]))
    elif t == "ungram":
        if FORMS and (len(op[1]) + int(op[2])) % 5 == 3:
            sketch.update_ngram(keys=[unhx(k) for k in op[1]], ngram=int(op[2]))
        else:
            sketch.update_ngram([unhx(k) for k in op[1]], int(op[2]))
    else:
        raise ValueError(op)


def apply_primitive(sketch, op):
    """The same operation expressed as a loop of single add(key, v) calls (the C12 right-hand side)."""
    for k, v in effects(op):
        sketch.add(k, v)


def gen_op(rng, keys, max_value=None, ngram=True, big=0.12, zero=0.05, max_batch=6, failing=True):
    """One random operation over the key universe `keys` (list of bytes)."""
    r = rng.random()
    pick = lambda: keys[int(rng.integers(0, len(keys)))]  # noqa: E731

    def val():
        v = rand_value(rng, big=big, zero=zero)
        if max_value is not None:
            v = min(v, max_value)
        return v

    if r < 0.40:
        return ["add", hx(pick()), val()]
    if r < 0.50:
        return ["add1", hx(pick())]
    if r < 0.62:
        r2 = rng.random()
        if 0.05 <= r2 < 0.09 and failing:
            ks = [hx(pick()) for _ in range(int(rng.integers(1, max_batch + 2)))]
            return ["ulist_bad", ks, int(rng.integers(0, len(ks) + 1))]
        if 0.09 <= r2 < 0.12:
            ks = [hx(pick()) for _ in range(int(rng.integers(1, max_batch + 2)))]
            return ["ulist_nested", ks, int(rng.integers(0, len(ks) + 1))]
        if r2 < 0.03:
            # long lists of typical batch sizes (batched kernels cut remainders somewhere)
            n = int([64, 65, 128, 256, 500, 512, 1000, 1023, 1024, 1025, 2048][int(rng.integers(0, 11))])
            return ["ulist", [hx(pick()) for _ in range(n)]]
        if r2 < 0.05:
            # mixed key lengths whose total equals n * len(first): first of length L, then pairs (L - d, L + d)
            L, d = int(rng.integers(3, 12)), int(rng.integers(1, 3))
            ks = [rand_key(rng, L, L, hot=0.2)]
            for _ in range(int(rng.integers(32, 40))):
                ks.append(rand_key(rng, L - d, L - d, hot=0.2))
                ks.append(rand_key(rng, L + d, L + d, hot=0.2))
            return ["ulist", [hx(k) for k in ks]]
        return ["ulist", [hx(pick()) for _ in range(int(rng.integers(0, max_batch + 1)))]]
    if r < 0.78:
        if rng.random() < 0.03:
            # a dict with many distinct fresh keys (batched dict paths)
            seen = {}
            for _ in range(int([64, 65, 100, 128, 256, 300][int(rng.integers(0, 6))])):
                seen[hx(rand_key(rng, 1, 9, hot=0.1))] = val() if max_value is None or max_value > 3 else 1
            return ["udict", [[k, v] for k, v in seen.items()]]
        n = int(rng.integers(0, max_batch + 1))
        seen = {}
        for _ in range(n):
            seen[hx(pick())] = val()
        return ["udict", [[k, v] for k, v in seen.items()]]
    if not ngram:
        return ["add", hx(pick()), val()]
    if r < 0.90:
        k = pick() if rng.random() < 0.5 else rand_key(rng, 0, 12)
        return ["ngram", hx(k), int(rng.integers(1, max(2, len(k) + 3)))]
    n_keys = int(rng.integers(0, 4)) if rng.random() > 0.04 else int([64, 70, 128, 200][int(rng.integers(0, 4))])
    ks = [pick() if rng.random() < 0.5 else rand_key(rng, 0, 10) for _ in range(n_keys)]
    return ["ungram", [hx(k) for k in ks], int(rng.integers(1, 6))]


def universe_of(ops_list, extra=()):
    u = []
    seen = set()
    for op in ops_list:
        if op[0] in ("merge", "saveload", "query", "q", "copy", "tmpmerge", "selfmerge"):
            continue
        for k, _ in effects(op):
            if k not in seen:
                seen.add(k)
                u.append(k)
    for k in extra:
        if k not in seen:
            seen.add(k)
            u.append(k)
    return u


def gen_multi_history(rng, keys, n_sk, n_ev, p_merge=0.12, p_saveload=0.06, p_copy=0.04, **opkw):
    """Events on up to n_sk same-shaped sketches: [i, op] | ["merge", dst, src] | ["saveload", i, shm, via_module] |
    ["copy", i, how] (the sketch object is replaced by copy.copy / copy.deepcopy / a pickle round trip of itself) |
    ["tmpmerge", i, [ops...]] (a temporary sketch is filled, merged into i and dropped)."""
    events = []
    for _ in range(n_ev):
        r = rng.random()
        if r > 1.0 - p_copy:
            if rng.random() < 0.12:
                # the sketch is merged into itself many times: every true count and n_added() double each time (n_added() wraps
                # past 2^64 after 64 of them; counters must simply saturate)
                events.append(["selfmerge", int(rng.integers(0, n_sk)), [1, 2, 23, 54, 64, 70][int(rng.integers(0, 6))]])
            elif rng.random() < 0.6:
                events.append(["copy", int(rng.integers(0, n_sk)), ["deepcopy", "pickle", "copy", "shallow"][int(rng.integers(0, 4))]])
            else:
                events.append(["tmpmerge", int(rng.integers(0, n_sk)), [gen_op(rng, keys, **dict(opkw, failing=False)) for _ in range(int(rng.integers(1, 4)))]])
            continue
        if n_sk > 1 and r < p_merge:
            a = int(rng.integers(0, n_sk))
            b = int(rng.integers(0, n_sk - 1))
            if b >= a:
                b += 1
            events.append(["merge", a, b])
        elif r < p_merge + p_saveload:
            events.append(["saveload", int(rng.integers(0, n_sk)), bool(rng.random() < 0.3), bool(rng.random() < 0.5)])
        else:
            events.append([int(rng.integers(0, n_sk)), gen_op(rng, keys, **opkw)])
    return events


def final_merge_tree(rng, n_sk):
    """Random merge tree combining all sketches into one; returns (events, index of the survivor)."""
    alive = list(range(n_sk))
    events = []
    while len(alive) > 1:
        i, j = (int(x) for x in rng.choice(len(alive), 2, replace=False))
        events.append(["merge", alive[i], alive[j]])
        alive.pop(j)
    return events, alive[0]


def apply_with_ghost(mon, sketch, op, ghost, ident=lambda k: k):
    """Apply an operation and update the ghost counter.  A failing update must raise; what it leaves behind must be one of the
    two admissible histories (everything before the unacceptable item was added, or nothing was): decided by n_added()."""
    if op[0] != "ulist_bad":
        mon.api(apply_op, sketch, op)
        for k, v in effects(op):
            ghost[ident(k)] += v
        return
    n0 = int(sketch.n_added())
    exc = apply_failing(sketch, op)
    mon.check(exc is not None, "update-with-an-unacceptable-item-raises", op=op)
    n1 = int(sketch.n_added())
    prefix = effects(op)
    total = sum(v for _, v in prefix)
    # n_added() may legitimately grow by less than the prefix when an add was cut short at a counter ceiling
    if 0 < n1 - n0 <= total or (n1 == n0 and total == 0):
        for k, v in prefix:
            ghost[ident(k)] += v
        mon.count("failed_updates:prefix_applied")
    elif n1 == n0:
        mon.count("failed_updates:nothing_applied_or_all_cut_short")
    else:
        mon.check(False, "failed-update-leaves-prefix-or-nothing(n_added)", op=op, n_added_before=n0, n_added_after=n1, prefix_total=total)
