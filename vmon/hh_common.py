"""Shared machinery for the heavy-hitter properties C03, C04, C13: key identity, ghost counts, cell sharing,
history generation and a runner that calls a per-event invariant hook."""
from __future__ import annotations

from collections import Counter

import numpy as np

from . import ops, state
from .common import CAP, hx, key_family, pick, rand_key, unhx

_PROBERS = {}


def prober(cfg):
    key = (cfg["width"], cfg["depth"], cfg["max_key_len"])
    p = _PROBERS.get(key)
    if p is None:
        p = _PROBERS[key] = state.Prober({"kind": "hh", "width": cfg["width"], "depth": cfg["depth"], "max_key_len": cfg["max_key_len"]})
    return p


def ident(key: bytes, L: int) -> bytes:
    """A key's identity: its first max_key_len bytes, as a byte string (length-sensitive)."""
    return bytes(key[:L])


def hh_keys(rng, n, L):
    """Hostile key family for heavy hitters: aliases under zero padding, all-NUL keys, over-long keys."""
    keys = key_family(rng, n, 0, max(1, L), alias=True)
    out = list(keys)
    r = rng.random()
    if r < 0.7:
        out.append(b"\0" * int(rng.integers(1, L + 1)))
    if rng.random() < 0.5 and keys:
        k = keys[int(rng.integers(0, len(keys)))]
        out.append((k + b"\0" * L)[:L] + rand_key(rng, 1, 4))  # longer than max_key_len, shares the prefix
    if rng.random() < 0.5 and keys:
        k = keys[int(rng.integers(0, len(keys)))]
        if len(k) < L:
            out.append(k + b"\0")
    if rng.random() < 0.15:
        # a very long key (lengths beyond one byte's range): its identity is still its first max_key_len bytes
        out.append(bytes(rng.integers(1, 256, int(rng.integers(256, 400)), dtype=np.uint8)))
    if rng.random() < 0.6 and keys:
        # siblings that differ only in one byte: the last counted byte (position max_key_len-1), the first, or a middle one
        k = keys[int(rng.integers(0, len(keys)))]
        full = (k + bytes(rng.integers(1, 256, L, dtype=np.uint8)))[:L]
        pos = pick(rng, [L - 1, L - 1, 0, int(rng.integers(0, L))])
        sib = bytearray(full)
        sib[pos] ^= pick(rng, [1, 0x80, 0xFF])
        out.append(full)
        out.append(bytes(sib))
        if rng.random() < 0.5:
            out.append(bytes(sib) + b"tail")  # over-long, shares the max_key_len prefix with the sibling
    seen = set()
    res = []
    for k in out:
        if k not in seen:
            seen.add(k)
            res.append(k)
    return res


def neighbours(keys, L):
    """Never-necessarily-added neighbours that zero-padded storage could confuse with the given keys."""
    out = []
    for k in keys:
        i = ident(k, L)
        if len(i) < L:
            out.append(i + b"\0")
        out.append(i.rstrip(b"\0"))
        if i and i[:-1] != i:
            out.append(i[:-1])
    out.append(b"")
    for n in range(1, min(L, 4) + 1):
        out.append(b"\0" * n)
    out.append(b"\0" * L)
    return out


def gen_cfg(rng, max_width=16):
    r = rng.random()
    w = int(rng.integers(1, 3)) if r < 0.5 else int(rng.integers(3, max_width + 1))
    return {"kind": "hh", "width": w, "depth": int(rng.integers(1, 5)),
            "max_key_len": pick(rng, [1, 2, 3, 4, 4, 8, 8, 16]) if rng.random() < 0.5 else int(rng.integers(1, 17))}


def gen_history_case(rng, ctx, big=0.1, n_ev=(5, 50), saveload=0.06, zero=0.05, max_width=16, queries=False):
    cfg = gen_cfg(rng, max_width)
    L = cfg["max_key_len"]
    n_sk = int(rng.integers(1, 5))
    keys = hh_keys(rng, int(rng.integers(2, 10)), L)
    events = ops.gen_multi_history(rng, keys, n_sk, int(rng.integers(*n_ev)), p_saveload=saveload, big=big, zero=zero)
    if n_sk > 1 and rng.random() < 0.6:
        tree, _ = ops.final_merge_tree(rng, n_sk)
        events += tree
    if queries:
        ev2 = []
        for e in events:
            ev2.append(e)
            while rng.random() < 0.45:
                i = e[1] if e[0] in ("merge", "saveload", "copy", "tmpmerge", "selfmerge") else e[0]
                t = pick(rng, [None, None, 0, 1, int(rng.integers(2, 30)), CAP, CAP, pick(rng, [CAP + 1, 2**40, 2**63, 2**64 - 1])])
                ev2.append(["q", i, pick(rng, [1, 2, 3, 10**9, 0, 1, 3]), t])
        events = ev2
    return {"type": "history", "cfg": cfg, "n": n_sk, "events": events}


class Run:
    """Executes a history on real HeavyHitters sketches with ghost counts; calls hook(run, i, ev) after each event."""

    def __init__(self, case, mon, hook, on_query=None):
        self.case = case
        self.mon = mon
        self.cfg = case["cfg"]
        self.L = self.cfg["max_key_len"]
        self.w, self.d = self.cfg["width"], self.cfg["depth"]
        n = case["n"]
        self.real = [state.make(self.cfg) for _ in range(n)]
        self.ghost = [Counter() for _ in range(n)]
        self.hook = hook
        self.on_query = on_query
        self.pr = prober(self.cfg)
        added = ops.universe_of([e[1] for e in case["events"] if isinstance(e[0], int)] +
                                [o for e in case["events"] if e[0] == "tmpmerge" for o in e[2]])
        self.added_ids = []
        seen = set()
        for k in added:
            i = ident(k, self.L)
            if i not in seen:
                seen.add(i)
                self.added_ids.append(i)
        self.raw_keys = added
        self.universe = list(self.added_ids)
        for k in neighbours(added, self.L):
            if k not in seen and len(k) <= self.L:
                seen.add(k)
                self.universe.append(k)
        self.cells = {k: self.pr.cells(k) for k in self.universe}
        # flags for non-triviality
        ids = self.added_ids
        self.shared = any(len({self.cells[k][r] for k in ids}) < len(ids) for r in range(self.d)) if len(ids) > 1 else False
        padded = {}
        self.alias_in_cell = False
        for k in ids:
            pk = k + b"\0" * (self.L - len(k))
            for o in padded.get(pk, []):
                if any(self.cells[o][r] == self.cells[k][r] for r in range(self.d)):
                    self.alias_in_cell = True
            padded.setdefault(pk, []).append(k)
        self.has_all_nul = any(k and not any(k) for k in ids)
        self.saturation_possible = False

    def cell_totals(self, i):
        """Per row: Counter cell -> total true multiplicity of identities mapping there (sketch i)."""
        sums = [Counter() for _ in range(self.d)]
        for k, f in self.ghost[i].items():
            c = self.cells[k]
            for r in range(self.d):
                sums[r][c[r]] += f
        return sums

    def go(self):
        mon = self.mon
        for ev in self.case["events"]:
            if ev[0] == "merge":
                a, b = ev[1], ev[2]
                mon.api(self.real[a].merge, self.real[b])
                self.ghost[a] = self.ghost[a] + self.ghost[b]
                mon.count("merges")
                t = a
            elif ev[0] == "saveload":
                i = ev[1]
                self.real[i] = mon.api(state.save_load, self.real[i], "hh", ev[2], False)
                mon.count("saveloads")
                t = i
            elif ev[0] == "q":
                if self.on_query:
                    self.on_query(self, ev[1], ev)
                continue
            elif ev[0] == "selfmerge":
                i = ev[1]
                for _ in range(ev[2]):
                    mon.api(self.real[i].merge, self.real[i])
                self.ghost[i] = Counter({k: v * 2 ** ev[2] for k, v in self.ghost[i].items()})
                mon.count("self_merge_runs")
                t = i
            elif ev[0] == "copy":
                i = ev[1]
                if not hasattr(self.real[i], "shm"):
                    self.real[i] = mon.api(state.duplicate, self.real[i], ev[2])
                    mon.count("copies:" + ev[2])
                t = i
            elif ev[0] == "tmpmerge":
                i = ev[1]
                tmp = state.make(self.cfg)
                tg = Counter()
                for op in ev[2]:
                    ops.apply_with_ghost(mon, tmp, op, tg, lambda k: ident(k, self.L))
                mon.api(self.real[i].merge, tmp)
                self.ghost[i] = self.ghost[i] + tg
                del tmp
                mon.count("temporary_operands_merged")
                t = i
            else:
                i, op = ev
                ops.apply_with_ghost(mon, self.real[i], op, self.ghost[i], lambda k: ident(k, self.L))
                mon.count("ops:" + op[0])
                t = i
            if sum(self.ghost[t].values()) >= CAP:
                self.saturation_possible = True
            self.hook(self, t, ev)
            # every other sketch must still be where its own history left it (no aliasing through merges / loads)
            for j in range(len(self.real)):
                if j != t:
                    self.hook(self, j, ["untouched-sketch-after", ev])
        if self.shared:
            mon.count("histories_with_shared_cell")
        if self.alias_in_cell:
            mon.count("histories_with_alias_pair_in_a_cell")
        if self.has_all_nul:
            mon.count("histories_with_all_nul_key")
        mon.seen("width", self.w)
        mon.seen("max_key_len", self.L)


def hh_pairs(lst):
    return [[hx(k), int(c)] for k, c in lst]


def zipf_case(rng, ctx):
    return {"type": "zipf", "cfg": {"kind": "hh", "width": pick(rng, [16, 70, 200]), "depth": 4, "max_key_len": pick(rng, [8, 5, 16])}, "n": 2,
            "vocab": 1000, "stream": 6000 if ctx.quick else 25000, "seed": int(rng.integers(0, 2**31))}


def build_zipf(case, mon):
    """Realistic sizes (the repository's own test regime): Zipf stream over a vocabulary, several sketches, merged.
    Returns (merged real sketch, ghost Counter by identity, cells, ids)."""
    cfg = case["cfg"]
    L = cfg["max_key_len"]
    rng = np.random.default_rng(case["seed"])
    vocab = list({bytes(rng.integers(0, 256, int(rng.integers(1, L + 3)), dtype=np.uint8)) for _ in range(case["vocab"])})
    pz = np.arange(1, len(vocab) + 1, dtype=np.float64) ** -1.1
    pz /= pz.sum()
    real = [state.make(cfg) for _ in range(case["n"])]
    ghost = Counter()
    for i in range(case["n"]):
        draws = rng.choice(len(vocab), case["stream"], p=pz).tolist()
        for b in range(0, len(draws), 500):
            batch = [vocab[j] for j in draws[b: b + 500]]
            if (b // 500) % 2:
                real[i].update(dict(Counter(batch)))
            else:
                real[i].update(batch)
            for k in batch:
                ghost[ident(k, L)] += 1
    for i in range(1, case["n"]):
        mon.api(real[0].merge, real[i])
    pr = prober(cfg)
    ids = list(ghost)
    cells = {k: pr.cells(k) for k in ids}
    pr.cache.clear()
    return real[0], ghost, cells, ids


def huge_list_case(rng):
    fam = [b"ab", b"ab\x00", b"\x00", b"", b"q", b"ab\x00\x00", b"\xff\x00", b"abcdefgh"]
    return {"type": "history", "cfg": {"kind": "hh", "width": 16, "depth": 2, "max_key_len": pick(rng, [4, 8])}, "n": 1,
            "events": [[0, ["add", hx(b"ab"), 2]], [0, ["ulist_rep", [hx(k) for k in fam], pick(rng, [65536, 70000])]], [0, ["add", hx(b"q"), 1]]]}
